#!/bin/bash
# sweep_mutants.sh: run every seeded change against the check of its own property (and extra checks listed in
# seeded/<id>/also), record the outcome in seeded/<id>/result.txt. /repo is restored after each run.
cd /verif
for d in seeded/*/; do
  id=$(basename $d); prop=${id%%_*}
  props="$prop $(cat $d/also 2>/dev/null)"
  : > $d/result.txt
  for p in $props; do
    if ! git -C /repo apply --check /verif/$d/patch.diff 2>/dev/null; then
      echo "$id $p: patch no longer applies to /repo HEAD (superseded by a fix commit)" | tee -a $d/result.txt; continue
    fi
    out=$(timeout 3000 tools/run_against.sh $id $p quick 2>&1 | head -3 | cut -c1-400)
    echo "$out" | tee -a $d/result.txt
  done
  git -C /repo checkout -- . 2>/dev/null
done
