#!/usr/bin/env python3
"""Regenerates /verif/MANIFEST.json from the table below (single source of truth for claimed checks)."""
import json, os, subprocess
ROOT = os.path.dirname(os.path.dirname(os.path.abspath(__file__)))
props = [json.loads(l) for l in open(os.path.join(ROOT, "properties.jsonl"))]

CLAIMED = {
 "C02": dict(technique="TLC model checking of PktMgr.tla (all schedules, small constants, ablation of DrainOnFini) + TLC trace validation (TraceServer.tla) of pipelined sessions replayed on the real Server/RequestServer with gated completion orders exported from the model",
   text="Exhaustive exploration of the implementation-shaped packet-manager model (receiver, dispatcher, rw pool, command worker, controller) proves ordering/once/no-loss for every schedule within the bounds; the real servers are bound to it by replaying model-generated and seeded (program, completion order, end mode) scenarios and validating every recorded wire trace against the property-level formulas (order, id, legal type, all answered).",
   note="Trusted: TLC, the harness's independent SFTP codec and gates; bounds NW<=3, <=5 requests in the model; Go scheduler sampled (completion order forced through handler gates and the work.begin hook).", ref="6/C02"),
 "C14": dict(technique="TLC model checking of PktMgr.tla (Barrier mechanism, ablation) + trace validation of gated pipelines on the real servers (handler in-flight sets at Close; statuses on the os-backed server)",
   text="The barrier (dispatcher waits for working=0 before a CLOSE) is model-checked for all relative speeds of workers; on the real code reads/writes are held at a gate with the close pipelined behind them, and TLC checks on the recorded trace that every read/write that preceded the close request had returned when the object was closed, and that all of them succeeded.",
   note="Negative observation uses a grace period (a too short one can only lose detection power); os-backed Server judged through reply statuses.", ref="6/C14"),
 "C18": dict(technique="TLC model checking of PktMgr.tla with the allocator (ablations ReleaseAfterSend, TagNextOrder) + differential replay (allocator off/on, same forced completion order) and page-event trace validation on the real servers",
   text="Page exclusivity / no reuse before send / empty at quiescence are invariants of the model for all schedules; on the real servers the same scenario is run with and without the allocator under the same forced completion order and the response byte streams must be identical; alloc.get/release and pm.send hook events are validated against the same invariants.",
   note="Programs in the differential are restricted to reply-deterministic ones (no read/write arriving after the close of its handle; no free-space numbers).", ref="6/C18"),
}

def main():
    repo_commits = subprocess.run(["git", "-C", "/repo", "log", "--format=%h %s"], capture_output=True, text=True).stdout.splitlines()
    hooks = [l.split()[0] for l in repo_commits if l.split(" ", 1)[1].startswith("verif:")]
    m = {"version": 1,
         "setup_cmd": "cd /verif && bin/setup",
         "hooks": {"guard": "verif",
                   "enable": "go test -c -tags verif -overlay <overlay.json> in /repo (lib/vlib.py build_harness): /verif/harness/*_test.go are overlaid into package sftp; hooks call vhook() which is a no-op unless the harness installs verifHook",
                   "baseline_off_cmd": "cd /repo && GOFLAGS=-mod=mod GOPROXY=off go test -vet=off -count=1 ./...",
                   "source_commits": list(reversed(hooks)), "add_only": True},
         "engines": [{"name": "tlc", "path": "/verif/spec", "serves_properties": sorted(CLAIMED), "kind_free_text": "explicit TLA+ specifications model-checked with TLC; Trace*.tla validate NDJSON traces recorded from the real code"},
                     {"name": "go-harness", "path": "/verif/harness", "serves_properties": sorted(CLAIMED), "kind_free_text": "overlay-compiled internal test harness (package sftp) that replays scenarios and records traces"}],
         "checks": [], "not_applicable": []}
    for p in props:
        pid = p["id"]
        if pid in CLAIMED:
            c = CLAIMED[pid]
            m["checks"].append({"property_id": pid, "quick_cmd": "bin/check %s quick" % pid, "thorough_cmd": "bin/check %s thorough" % pid,
                                "evidence_file": "/verif/evidence/%s.json" % pid, "replay_cmd_template": "bin/check %s --replay {path}" % pid,
                                "engine": "tlc", "technique": c["technique"],
                                "level_claimed": {"category": "model_checking", "text": c["text"], "design_ref": "DESIGN.md section " + c["ref"]},
                                "level_note": c["note"]})
        else:
            m["not_applicable"].append({"property_id": pid, "reason": "check not built yet (work in progress; see DESIGN.md section 11)"})
    json.dump(m, open(os.path.join(ROOT, "MANIFEST.json"), "w"), indent=1)
    print("claimed:", sorted(CLAIMED))

main()
