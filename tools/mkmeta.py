#!/usr/bin/env python3
"""Writes seeded/<id>/meta.json from the table below + result.txt of the last sweep."""
import json, os, re
ROOT = os.path.dirname(os.path.dirname(os.path.abspath(__file__)))
NEEDS = {
 "C01_m3": "concurrent reads (default), a ReadAt/Read buffer that overshoots EOF by at least one whole packet, and the reply of a later chunk handled before the reply of the chunk containing EOF",
 "C02_m3": "a backlog of pipelined requests nobody reads the replies of, then EOF: the controller picks fini while request registrations are still buffered",
 "C04_m3": "a request registered before the receiver's broadcast whose write fails after the broadcast (writer closed by the receiver while the caller queues on the write lock)",
 "C05_m3": "MkdirAll on (or through) a symbolic link to a directory",
 "C07_m3": "allocator on + a frame whose length field exceeds 256 KiB",
 "C11_m3": "RequestServer + a handler reader/writer/lister whose own Close() returns an error, then use-after-close, a repeated close, or just the end of the session",
 "C12_m3": "a server that answers CLOSE with a failure status (or a connection failing during Close), then any further use of the File",
 "C13_m3": "the sequential ReadFrom path + a failing WRITE chunk + observing or using the File offset afterwards",
 "C16_m3": "RequestServer + a lister that calls the exported Request API (WithContext) from inside ListAt",
 "C17_m3": "a setgid entry whose owner-execute and group-execute bits differ (long name of a listing)",
 "C01_m1": "non-zero File offset before the call + the concurrent ReadFrom path (ReadFromWithConcurrency, or UseConcurrentWrites with a sized reader larger than one packet) + a following offset-relative operation",
 "C01_m2": "server allocator enabled + several requests in flight per file, so that a new request arrives while an earlier DATA reply is still being written",
 "C02_m1": "os-backed Server + an unknown extended request pipelined behind a request that has not been answered yet",
 "C02_m2": "two requests in flight that carry the same request id, the later one finishing first",
 "C03_m1": "a ReadDirContext cancelled while its OPENDIR is outstanding, a server that answers it afterwards, other callers on the same Client",
 "C03_m2": "two goroutines on one Client: a request written as header + payload (WRITE/OPEN/SETSTAT) and a single-write request sent between the two writes",
 "C04_m1": "the server->client stream ending exactly on a packet boundary (clean io.EOF) with a request outstanding",
 "C04_m2": "a client->server write failing between the header and the separately written payload while the receive direction stays alive",
 "C05_m1": "Glob pattern with meta characters in the directory part that expands to two or more directories",
 "C05_m2": "server working directory set, process cwd different, PosixRename with a relative new name",
 "C06_m1": "one reused sshfx.WritePacket / DataPacket value decoding an N-byte payload and then a shorter one",
 "C06_m2": "a request whose attribute flags include ATTR_EXTENDED while the FileStat carries zero extended attributes",
 "C07_m1": "allocator on (receive buffer with cap > len) + a WRITE whose inner length field is inflated, on an open writable handle",
 "C07_m2": "a packet that passes framing but fails to decode, valid requests after it, and a transport whose Close() does not abort reads",
 "C08_m1": "a frame whose declared length is 1..13 bytes above 256 KiB",
 "C08_m2": "a receive buffer with cap > len (allocator page) and a string length exceeding the bytes left in the frame",
 "C09_m1": "read-only Server + the extended request posix-rename@openssh.com",
 "C09_m2": "read-only Server + two-step sequence: permitted read-only OPEN, then FSETSTAT through the handle",
 "C10_m1": "a handler ListerAt that returns fewer entries than the buffer holds without io.EOF",
 "C10_m2": "WithStartDirectory set to a non-root directory + hardlink request with a relative new path",
 "C11_m1": "two or more handles open at a clean EOF, or at least one handle open when the connection breaks inside a packet",
 "C11_m2": "os-backed Server: the connection ends while an OPEN / OPENDIR is still being handled",
 "C12_m1": "Close racing with a concurrently running Stat on the same File",
 "C12_m2": "a Read whose buffer extends past end-of-file, followed by an offset-dependent call",
 "C13_m1": "UseConcurrentWrites, buffer larger than a packet, at least two failing chunks, the higher-offset failure reaching the reducer first",
 "C13_m2": "concurrent ReadFrom, a failing chunk, and more source data remaining (slicer stopped by cancel rather than by EOF)",
 "C14_m1": "close pipelined behind reads/writes that have all been picked up by workers (queue empty) but are still running",
 "C14_m2": "RequestServer: EOF right after pipelined reads/writes (+ close) with at least one of them still in flight",
 "C15_m1": "allocator on, a stalled write of a read answer, and further requests arriving during the stall",
 "C15_m2": "a read of 32756..32768 bytes (split into two requests by the changed clamp) racing an overlapping write",
 "C16_m1": "a handler ListerAt returning short batches without io.EOF",
 "C16_m2": "a server or handler that reports '.' or '..' followed by at least one more record in the same batch",
 "C17_m1": "a character-device mode word (S_IFCHR)",
 "C17_m2": "one SETSTAT whose flags combine Size with ACmodTime",
 "C18_m1": "allocator on, pipelined requests, the sender still inside the write of an earlier response",
 "C18_m2": "allocator on and a READ with Len above the server's maximum payload (32768)",
 "C19_m1": "a rejected SetSFTPExtensions request, or an accepted order that is not a prefix of the supported table",
 "C19_m2": "a Server built with ReadOnly() receiving an unknown extended request name",
 "C20_m1": "a bad reply (connection teardown) while writes of other goroutines are pending and further operations start before the shutdown completes",
 "C20_m2": "an SSH_FXP_ATTRS reply with extended_count such as 0x20000000 (8*count wraps in uint32)",
}
for d in sorted(os.listdir(os.path.join(ROOT, "seeded"))):
    p = os.path.join(ROOT, "seeded", d)
    if not os.path.isdir(p) or d not in NEEDS:
        continue
    res = open(os.path.join(p, "result.txt")).read().strip().splitlines() if os.path.exists(os.path.join(p, "result.txt")) else []
    meta = {"id": d, "breaks_property": d.split("_")[0], "written_by": "independent sub-agent given only the property text and a scratch worktree of /repo",
            "needs_to_manifest": NEEDS[d],
            "confirmed_by_me": "tools/confirm_mutant.sh %s %s: fresh worktree of /repo HEAD; patch applies; `go test -vet=off -count=1 ./...` passes with it; demo_test.go (TestSeededDemo%s) fails with it and passes without it" % (d.split("_")[0], d[-1], d[-1]),
            "checks_run": "tools/run_against.sh %s <PROP> quick (git -C /repo apply patch.diff; bin/check; git -C /repo checkout -- .)" % d,
            "results": res}
    json.dump(meta, open(os.path.join(p, "meta.json"), "w"), indent=1)
print("meta written")
