#!/bin/bash
# runall.sh [tier] [seed]: run every claimed check once on /repo as it is; prints one line per check.
T=${1:-quick}; S=${2:-1}
cd "$(dirname "$0")/.." || exit 2
for p in $(python3 -c "import json;print(' '.join(c['property_id'] for c in json.load(open('MANIFEST.json'))['checks']))"); do
  s=$(date +%s); VERIF_SEED=$S timeout 3000 bin/check $p $T > /tmp/runall_${T}_$p.log 2>&1; rc=$?
  echo "$p rc=$rc $(( $(date +%s) - s ))s $(tail -1 /tmp/runall_${T}_$p.log | cut -c1-160)"
done
