#!/bin/bash
# round.sh <k> [ID...]: confirm /tmp/mut/<ID>.out/m<k>.* and run the property's own quick check against it.
K=$1; shift
IDS=${@:-C01 C02 C03 C04 C05 C06 C07 C08 C09 C10 C11 C12 C13 C14 C15 C16 C17 C18 C19 C20}
export GOFLAGS=-mod=mod GOPROXY=off
cd /verif
for id in $IDS; do
  [ -f /tmp/mut/$id.out/m$K.diff ] || { echo "$id m$K: not delivered"; continue; }
  r=$(tools/confirm_mutant.sh $id $K 2>&1 | grep RESULT)
  echo "$r"
  echo "$r" | grep -q CONFIRMED || continue
  timeout 1500 tools/run_against.sh ${id}_m$K $id quick 2>&1 | tee seeded/${id}_m$K/result.txt | cut -c1-260
done
git -C /repo status --short
