#!/bin/bash
# confirm_mutant.sh <ID> <k> : independently confirm a sub-agent's seeded change in a scratch worktree of /repo HEAD:
#   applies, existing suite passes with it, its demo fails with it and passes without. On success it is kept as
#   /verif/seeded/<ID>_m<k>/{patch.diff,demo_test.go,meta.json(partial)}
set -u
ID=$1; K=$2
SRC=/tmp/mut/$ID.out
WT=/tmp/confirm_${ID}_$K
export GOFLAGS=-mod=mod GOPROXY=off
git -C /repo worktree remove --force $WT >/dev/null 2>&1
git -C /repo worktree add --detach $WT HEAD >/dev/null 2>&1 || { echo "worktree failed"; exit 2; }
cleanup() { git -C /repo worktree remove --force $WT >/dev/null 2>&1; rm -rf $WT; }
trap cleanup EXIT
cd $WT
if ! git apply $SRC/m$K.diff 2>/tmp/apply_err_${ID}_$K; then
  if ! git apply -3 $SRC/m$K.diff 2>>/tmp/apply_err_${ID}_$K; then echo "RESULT $ID m$K: patch does not apply"; cat /tmp/apply_err_${ID}_$K; exit 1; fi
fi
git diff HEAD > /tmp/confirm_patch_${ID}_$K.diff
go build ./... || { echo "RESULT $ID m$K: does not build"; exit 1; }
SUITE=$(go test -vet=off -count=1 ./... 2>&1 | grep -v "no test files")
if echo "$SUITE" | grep -q "^FAIL\|^---\ FAIL\|^panic"; then
  # one retry for flaky suite tests
  SUITE=$(go test -vet=off -count=1 ./... 2>&1 | grep -v "no test files")
  if echo "$SUITE" | grep -q "^FAIL\|^--- FAIL\|^panic"; then echo "RESULT $ID m$K: existing suite FAILS with the change"; echo "$SUITE" | tail -5; exit 1; fi
fi
cp $SRC/m${K}_demo_test.go $WT/zz_demo_test.go
D1=$(timeout 120 go test -vet=off -count=1 -run "TestSeededDemo$K\$" . 2>&1); R1=$?
git reset -q --hard HEAD
D2=$(timeout 120 go test -vet=off -count=1 -run "TestSeededDemo$K\$" . 2>&1); R2=$?
if [ $R1 -ne 0 ] && [ $R2 -eq 0 ]; then
  mkdir -p /verif/seeded/${ID}_m$K
  cp /tmp/confirm_patch_${ID}_$K.diff /verif/seeded/${ID}_m$K/patch.diff
  cp $SRC/m${K}_demo_test.go /verif/seeded/${ID}_m$K/demo_test.go
  cp $SRC/m$K.md /verif/seeded/${ID}_m$K/notes.md
  echo "RESULT $ID m$K: CONFIRMED (suite passes with change; demo fails with change rc=$R1; demo passes without rc=$R2)"
  exit 0
fi
echo "RESULT $ID m$K: NOT confirmed (demo with change rc=$R1, without rc=$R2)"
echo "$D1" | tail -5; echo ---; echo "$D2" | tail -5
exit 1
