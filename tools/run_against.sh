#!/bin/bash
# run_against.sh <seeded-dir-name> <PROP> [tier] : apply the seeded change to /repo, run the check, undo.
set -u
S=/verif/seeded/$1; P=$2; T=${3:-quick}
cd /repo && git diff --quiet || { echo "/repo not clean"; exit 2; }
git -C /repo apply $S/patch.diff || { echo "apply failed"; exit 2; }
trap 'git -C /repo checkout -- . ' EXIT
mkdir -p /tmp/against; cd /verif && VERIF_EVIDENCE_DIR=/tmp/against/evidence VERIF_REPLAY_DIR=/tmp/against/replays bin/check $P $T > /tmp/against_$1_$P.log 2>&1; RC=$?
echo "AGAINST $1 $P $T -> exit $RC: $(grep -c '^VIOLATION' /tmp/against_$1_$P.log) violation line(s); $(grep -m1 'key=' /tmp/against_$1_$P.log | cut -c1-200)"
grep -m1 "MACHINERY" /tmp/against_$1_$P.log | cut -c1-300
exit $RC
