//go:build verif

package sftp

// C16: directory listings through the real client against (a) the RequestServer with a scripted ListerAt
// (every legal lister behaviour exported from Listing.tla, plus large and odd cases) and (b) the os-backed
// Server on real directories of every size around the batch size.

import (
	"fmt"
	"io"
	"os"
	"path/filepath"
	"reflect"
	"strings"
	"testing"
	"time"
)

type lsStep struct {
	K   int  `json:"k"`
	EOF bool `json:"eof"`
}

type lsScenario struct {
	N      int      `json:"n"`
	B      int      `json:"b"`
	Script []lsStep `json:"script"`
}

func lsName(i, variant int) string {
	switch (i + variant) % 7 {
	case 0:
		return fmt.Sprintf("long-%d-%s", i, strings.Repeat("n", 180))
	case 1:
		return fmt.Sprintf("\xff\xfe-%d", i) // not UTF-8
	case 2:
		return fmt.Sprintf("sp ace %d", i)
	}
	return fmt.Sprintf("e%04d", i)
}

func hexAll(names []string) []string {
	out := make([]string, 0, len(names))
	for _, n := range names {
		out = append(out, hexs([]byte(n)))
	}
	return out
}

// readDirBounded runs Client.ReadDir with a watchdog.
func readDirBounded(cl *Client, p string) ([]os.FileInfo, error, bool) {
	type res struct {
		fi  []os.FileInfo
		err error
	}
	ch := make(chan res, 1)
	go func() {
		defer func() {
			if r := recover(); r != nil {
				ch <- res{nil, fmt.Errorf("panic: %v", r)}
			}
		}()
		fi, err := cl.ReadDir(p)
		ch <- res{fi, err}
	}()
	select {
	case r := <-ch:
		return r.fi, r.err, true
	case <-time.After(10 * time.Second):
		return nil, nil, false
	}
}

// lsHangs counts listings that did not terminate; after three the remaining cases are skipped (each costs a watchdog
// period and the violation is already on record).
var lsHangs int

func lsRunRS(t testing.TB, tr *tracer, sc lsScenario, variant int, alloc bool) {
	if lsHangs >= 3 {
		return
	}
	tr.reset(kv{"kind": "listing", "backend": "rs", "n": sc.N, "b": sc.B, "variant": variant, "script": sc.Script})
	old := MaxFilelist
	MaxFilelist = int64(sc.B)
	defer func() { MaxFilelist = old }()
	sess := newSrvSession(t, tr, srvOpts{kind: "rs", alloc: alloc, quiet: true, quietHandlers: true, hopt: "lrk"})
	sess.s2c.onWrite = nil
	// the directory: n entries; in some variants '.' and '..' are among what the lister reports
	var ents []os.FileInfo
	var want []string
	wantSize := map[string]int64{}
	wantMode := map[string]os.FileMode{}
	wantExt := map[string][]StatExtended{}
	wantOwner := map[string][2]uint32{} // the owner each entry reports (FileInfoUidGid, Sys().(*syscall.Stat_t), or none)
	for i := 0; i < sc.N; i++ {
		name := lsName(i, variant)
		if variant%4 == 2 && i%7 == 3 {
			name = strings.Repeat(".", 3+i/7) // "...", "....": legal names, only "." and ".." are excluded
		}
		if variant%3 == 1 && i == 0 {
			name = "."
		}
		if variant%3 == 1 && i == sc.N/2 && i != 0 {
			name = ".."
		}
		md := os.FileMode(0o600 + i%64)
		switch i % 5 { // the special bits travel with the entry too
		case 1:
			md |= os.ModeSetuid
		case 2:
			md |= os.ModeSetgid
		case 3:
			md |= os.ModeSticky
		}
		wantMode[name] = md
		n := &vnode{name: name, data: make([]byte, 1000+i), mode: md, mtime: fixedTime.Add(time.Duration(i) * time.Second),
			uid: uint32(1000 + i), gid: uint32(5000 + i), own: (i + variant) % 4}
		switch (i + variant) % 5 { // extended attributes travel with the entry as well (none / one pair / two pairs)
		case 1:
			n.ext = []StatExtended{{ExtType: fmt.Sprintf("k%d@example.com", i), ExtData: fmt.Sprintf("v%d", i)}}
		case 3:
			n.ext = []StatExtended{{ExtType: "a@example.com", ExtData: fmt.Sprintf("first-%d", i)}, {ExtType: "b@example.com", ExtData: ""}}
		}
		wantExt[name] = n.ext
		ents = append(ents, n.asInfo())
		if _, _, has := n.wireOwner(); has {
			wantOwner[name] = [2]uint32{n.uid, n.gid}
		} else {
			wantOwner[name] = [2]uint32{0, 0}
		}
		if name != "." && name != ".." {
			want = append(want, name)
			wantSize[name] = int64(1000 + i)
		}
	}
	sess.v.addDir("/d")
	call := 0
	sess.v.listScript = func(obj *vobj, dst []os.FileInfo, off int64) (int, error) {
		k, eof := 0, true
		if call < len(sc.Script) {
			k, eof = sc.Script[call].K, sc.Script[call].EOF
		} else {
			k = len(dst) // script exhausted (only when the server asks differently than the model): hand out what is left
		}
		call++
		avail := len(ents) - int(off)
		if avail <= 0 {
			return 0, io.EOF
		}
		if k > avail {
			k = avail
		}
		if k > len(dst) {
			k = len(dst)
		}
		if k == 0 && !eof {
			k = 1
		}
		copy(dst, ents[off:int(off)+k])
		if int(off)+k >= len(ents) && (eof || call > len(sc.Script)) {
			return k, io.EOF
		}
		return k, nil
	}
	go func() { sess.rs.Serve(); sess.conn.Close(); close(sess.serveDone) }()
	cl, err := NewClientPipe(sess.s2c, pipeWriteCloser{p: sess.c2s})
	if err != nil {
		t.Fatal(err)
	}
	fis, rerr, returned := readDirBounded(cl, "/d")
	var got []string
	attrsok := true
	for _, fi := range fis {
		got = append(got, fi.Name())
		if sz, ok := wantSize[fi.Name()]; ok && (fi.Size() != sz || fi.Mode()&(os.ModePerm|os.ModeSetuid|os.ModeSetgid|os.ModeSticky|os.ModeType) != wantMode[fi.Name()] || !fi.ModTime().Equal(fixedTime.Add(time.Duration(sz-1000)*time.Second))) {
			attrsok = false
		}
		if ow, ok := wantOwner[fi.Name()]; ok {
			st, isStat := fi.Sys().(*FileStat)
			if !isStat || st.UID != ow[0] || st.GID != ow[1] {
				attrsok = false
			}
			if we := wantExt[fi.Name()]; isStat && (len(st.Extended) != len(we) || (len(we) > 0 && !reflect.DeepEqual(st.Extended, we))) {
				attrsok = false
			}
		}
	}
	tr.emit("LsResult", kv{"got": hexAll(got), "want": hexAll(want), "attrsok": attrsok, "err": errStr(rerr), "returned": returned, "calls": call})
	if returned {
		cl.Close()
		sess.waitServe(5 * time.Second)
	} else {
		lsHangs++
		sess.conn.Close()
	}
}

func lsRunServer(t testing.TB, tr *tracer, n int, alloc bool) {
	tr.reset(kv{"kind": "listing", "backend": "server", "n": n, "b": 128, "variant": 0})
	root := prepRoot(t, "lsroot")
	var want []string
	wantSize := map[string]int64{}
	for i := 0; i < n; i++ {
		name := fmt.Sprintf("f%04d", i)
		if i%9 == 3 {
			name = fmt.Sprintf("\xfe\xff%04d", i)
		}
		if i%13 == 7 {
			name = strings.Repeat(".", 3+i/13) // dots only, three or more: an ordinary name
		}
		if i%11 == 5 {
			os.Mkdir(filepath.Join(root, name), 0o755)
		} else {
			os.WriteFile(filepath.Join(root, name), make([]byte, i%17), 0o644)
		}
		want = append(want, name)
	}
	des, _ := os.ReadDir(root)
	for _, de := range des {
		if fi, err := de.Info(); err == nil && !fi.IsDir() {
			wantSize[de.Name()] = fi.Size()
		}
	}
	sess := newSrvSession(t, tr, srvOpts{kind: "server", alloc: alloc, quiet: true})
	sess.s2c.onWrite = nil
	go func() { sess.srv.Serve(); sess.conn.Close(); close(sess.serveDone) }()
	cl, err := NewClientPipe(sess.s2c, pipeWriteCloser{p: sess.c2s})
	if err != nil {
		t.Fatal(err)
	}
	fis, rerr, returned := readDirBounded(cl, root)
	var got []string
	attrsok := true
	for _, fi := range fis {
		got = append(got, fi.Name())
		if sz, ok := wantSize[fi.Name()]; ok && fi.Size() != sz {
			attrsok = false
		}
	}
	tr.emit("LsResult", kv{"got": hexAll(got), "want": hexAll(want), "attrsok": attrsok, "err": errStr(rerr), "returned": returned, "calls": 0})
	if returned {
		cl.Close()
		sess.waitServe(5 * time.Second)
	} else {
		sess.conn.Close()
	}
}

func TestVerif_Listing(t *testing.T) {
	tr := newTracer(t)
	var scs []lsScenario
	loadScenarios(t, "VERIF_SCEN", &scs)
	for i, sc := range scs {
		if !vThorough() && (i+int(vSeed()))%2 != 0 && sc.N < 6 {
			continue
		}
		lsRunRS(t, tr, sc, i, i%2 == 0)
	}
	// larger batch sizes with lister behaviours derived from the same shapes: every size from 0 to 2B+2
	bs := []int{22, 100}
	if vThorough() {
		bs = []int{5, 22, 100, 128}
	}
	for _, b := range bs {
		for n := 0; n <= 2*b+2; n++ {
			if !vThorough() && n > 3 && n < b-2 && n%7 != int(vSeed())%7 {
				continue
			}
			for shape := 0; shape < 4; shape++ {
				sc := lsScenario{N: n, B: b}
				left := n
				for left > 0 {
					k := b
					switch shape {
					case 1:
						k = b/2 + 1 // short batches without EOF
					case 3:
						k = 1 + (left*7)%b
					}
					if k > left {
						k = left
					}
					left -= k
					sc.Script = append(sc.Script, lsStep{k, left == 0 && shape%2 == 0}) // EOF together with the last entries, or on the following call
				}
				if len(sc.Script) == 0 || !sc.Script[len(sc.Script)-1].EOF {
					sc.Script = append(sc.Script, lsStep{0, true})
				}
				lsRunRS(t, tr, sc, n+shape, (n+shape)%2 == 0)
			}
		}
	}
	sizes := []int{0, 1, 2, 127, 128, 129, 255, 256, 257}
	if vThorough() {
		sizes = nil
		for n := 0; n <= 260; n++ {
			sizes = append(sizes, n)
		}
	}
	for i, n := range sizes {
		lsRunServer(t, tr, n, i%2 == 0)
	}
}
