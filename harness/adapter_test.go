//go:build verif

package sftp

// C10: the Adapter.tla tables on the real RequestServer with recording handlers.

import (
	"errors"
	"fmt"
	"io"
	"os"
	"strings"
	"syscall"
	"testing"
	"time"
)

type adCase struct {
	Kind  string   `json:"kind"`
	Start []string `json:"start"`
	Abs   bool     `json:"abs"`
	Trail bool     `json:"trail"`
	Segs  []string `json:"segs"`
	Req   string   `json:"req"`
	Has   []string `json:"has"`
	Err   string   `json:"err"`
	Wrap  string   `json:"wrap"`
}

func segBytes(s string) string {
	if s == "X" {
		return "\xff\xfe"
	}
	return s
}

func symbolic(p string) string { return strings.ReplaceAll(p, "\xff\xfe", "X") }

func adPathString(c adCase) string {
	var parts []string
	for _, s := range c.Segs {
		parts = append(parts, segBytes(s))
	}
	p := strings.Join(parts, "/")
	if c.Abs {
		p = "/" + p
	}
	if c.Trail {
		p += "/"
	}
	return p
}

// adSession: a RequestServer with recording handlers, driven with raw frames
type adSession struct {
	s *srvSession
}

func newAdSession(t testing.TB, tr *tracer, start string, hopt string) *adSession {
	s := newSrvSession(t, tr, srvOpts{kind: "rs", quiet: true, quietHandlers: true, hopt: hopt, startDir: start})
	s.v.addFile("/f", []byte("0123456789"))
	s.v.addDir("/d")
	s.start()
	s.call(fInit(3))
	return &adSession{s}
}

func (a *adSession) close() {
	a.s.endEOF()
	a.s.waitServe(10 * time.Second)
	a.s.conn.Close()
	waitFor(5*time.Second, a.s.finiSeen)
}

var adPathReqs = []string{"STAT", "MKDIR", "RENAME", "OPEN", "SETSTAT", "REMOVE", "HARDLINK", "SYMLINK", "POSIX-RENAME", "LSTAT", "OPENDIR", "RMDIR", "READLINK"}

func adPathCase(t testing.TB, tr *tracer, a *adSession, c adCase, i int) {
	p := adPathString(c)
	req := adPathReqs[i%len(adPathReqs)]
	a.s.v.takeLog()
	id := uint32(1000 + i)
	verbatim := true
	switch req {
	case "STAT":
		a.s.call(fIDStr(tStat, id, p))
	case "LSTAT":
		a.s.call(fIDStr(tLstat, id, p))
	case "MKDIR":
		a.s.call(fMkdir(id, p))
	case "RMDIR":
		a.s.call(fIDStr(tRmdir, id, p))
	case "REMOVE":
		a.s.call(fIDStr(tRemove, id, p))
	case "READLINK":
		a.s.call(fIDStr(tReadlink, id, p))
	case "OPENDIR":
		if f, ok := a.s.call(fIDStr(tOpendir, id, p)); ok && f.Typ == tHandle {
			log := a.s.v.takeLog()
			a.s.call(fClose(id+1, f.Handle))
			a.s.v.mu.Lock()
			a.s.v.hlog = log
			a.s.v.mu.Unlock()
		}
	case "OPEN":
		if f, ok := a.s.call(fOpen(id, p, 1, wattrs{})); ok && f.Typ == tHandle {
			a.s.call(fClose(id+1, f.Handle))
		}
	case "SETSTAT":
		a.s.call(fSetstat(id, p, wattrs{Flags: 4, Perm: 0o640}))
	case "RENAME":
		a.s.call(fTwo(tRename, id, p, p))
	case "HARDLINK":
		a.s.call(fExt(id, "hardlink@openssh.com", p, p))
	case "POSIX-RENAME":
		a.s.call(fExt(id, "posix-rename@openssh.com", p, p))
	case "SYMLINK":
		a.s.call(fTwo(tSymlink, id, "../raw//target/./"+p, p)) // targetpath, linkpath
	}
	log := a.s.v.takeLog()
	got, got2 := "", ""
	if len(log) > 0 {
		got, got2 = log[0].Path, log[0].Target
		if req == "SYMLINK" {
			verbatim = log[0].Path == "../raw//target/./"+p
			got = log[0].Target
		}
	}
	tr.emit("AdPath", kv{"start": strs(c.Start), "abs": c.Abs, "trail": c.Trail, "segs": strs(c.Segs), "req": req, "ncalls": len(log),
		"got": symbolic(got), "got2": symbolic(got2), "verbatim": verbatim})
}

func adDispatchCase(t testing.TB, tr *tracer, c adCase, i int) {
	a := newAdSession(t, tr, "/", strings.Join(c.Has, ""))
	defer a.close()
	s := a.s
	id := uint32(2000)
	open := func(fr []byte) string {
		f, ok := s.call(fr)
		if !ok || f.Typ != tHandle {
			t.Fatalf("setup open failed for %s: %+v", c.Req, f)
		}
		return f.Handle
	}
	flagsok, attrsok := true, true
	objBefore := int64(0)
	sentAttrs := wattrs{Flags: 1 | 2 | 4 | 8, Size: 7, UID: 11, GID: 12, Perm: 0o100640, Atime: 1111, Mtime: 2222}
	checkAttrs := func(h hcall) {
		if !(h.AF.Size && h.AF.UidGid && h.AF.Permissions && h.AF.Acmodtime) {
			flagsok = false
		}
		if h.Attrs == nil || h.Attrs.Size != 7 || h.Attrs.UID != 11 || h.Attrs.GID != 12 || h.Attrs.Mode != 0o100640 || h.Attrs.Atime != 1111 || h.Attrs.Mtime != 2222 {
			attrsok = false
		}
	}
	var pf uint32
	switch c.Req {
	case "OPEN-R":
		pf = 1
	case "OPEN-W":
		pf = 2 | 8 | 16
	case "OPEN-RW":
		pf = 3
	case "OPEN-RWC":
		pf = 1 | 2 | 8 | 32
	case "OPEN-A":
		pf = 4 | 8
	case "OPEN-NONE":
		pf = 0
	}
	var h string
	switch c.Req {
	case "FSTAT", "READ":
		h = open(fOpen(id, "/f", 1, wattrs{}))
	case "FSETSTAT", "WRITE":
		h = open(fOpen(id, "/f", 2, wattrs{}))
	case "READDIR", "READ-on-dir", "WRITE-on-dir":
		h = open(fIDStr(tOpendir, id, "/d"))
	case "WRITE-on-get", "READDIR-on-get":
		h = open(fOpen(id, "/f", 1, wattrs{}))
	case "READ-on-put", "READDIR-on-put":
		h = open(fOpen(id, "/f", 2, wattrs{}))
	}
	before := hexs(s.v.fileData("/f"))
	var reply wframe
	s.v.takeLog()
	objBefore = s.v.calls
	id++
	switch {
	case strings.HasPrefix(c.Req, "OPEN-"):
		path := "/f"
		if c.Req == "OPEN-RWC" || c.Req == "OPEN-A" {
			path = "/newfile"
		}
		s.call(fOpen(id, path, pf, wattrs{Flags: 4, Perm: 0o600}))
	case c.Req == "OPENDIR":
		s.call(fIDStr(tOpendir, id, "/d"))
	case c.Req == "STAT":
		s.call(fIDStr(tStat, id, "/f"))
	case c.Req == "LSTAT":
		s.call(fIDStr(tLstat, id, "/f"))
	case c.Req == "FSTAT":
		s.call(fIDStr(tFstat, id, h))
	case c.Req == "READLINK":
		s.call(fIDStr(tReadlink, id, "/f"))
	case c.Req == "REALPATH":
		s.call(fIDStr(tRealpath, id, "x/../y"))
	case c.Req == "SETSTAT":
		s.call(fSetstat(id, "/f", sentAttrs))
	case c.Req == "FSETSTAT":
		s.call(fFsetstat(id, h, sentAttrs))
	case c.Req == "RENAME":
		s.call(fTwo(tRename, id, "/f", "/g"))
	case c.Req == "POSIX-RENAME":
		s.call(fExt(id, "posix-rename@openssh.com", "/f", "/g"))
	case c.Req == "RMDIR":
		s.call(fIDStr(tRmdir, id, "/d"))
	case c.Req == "MKDIR":
		s.call(fMkdir(id, "/nd"))
	case c.Req == "REMOVE":
		s.call(fIDStr(tRemove, id, "/f"))
	case c.Req == "SYMLINK":
		s.call(fTwo(tSymlink, id, "/f", "/ln"))
	case c.Req == "HARDLINK":
		s.call(fExt(id, "hardlink@openssh.com", "/f", "/hl"))
	case c.Req == "STATVFS":
		s.call(fExt(id, "statvfs@openssh.com", "/"))
	case c.Req == "READ":
		s.call(fRead(id, h, 0, 4))
	case c.Req == "WRITE":
		s.call(fWrite(id, h, 0, []byte("zz")))
	case c.Req == "READDIR":
		s.call(fIDStr(tReaddir, id, h))
	case strings.HasPrefix(c.Req, "READ-on-"):
		reply, _ = s.call(fRead(id, h, 0, 4))
	case strings.HasPrefix(c.Req, "WRITE-on-"):
		reply, _ = s.call(fWrite(id, h, 0, []byte("zz")))
	case strings.HasPrefix(c.Req, "READDIR-on-"):
		reply, _ = s.call(fIDStr(tReaddir, id, h))
	}
	log := s.v.takeLog()
	objcalls := int(s.v.calls-objBefore) - len(log)
	calls := []kv{}
	for _, hc := range log {
		calls = append(calls, kv{"h": hc.H, "m": hc.M})
		if strings.HasPrefix(c.Req, "OPEN-") && hc.Flags != pf {
			flagsok = false
		}
		if c.Req == "SETSTAT" || c.Req == "FSETSTAT" {
			checkAttrs(hc)
		}
	}
	tr.emit("AdDispatch", kv{"req": c.Req, "has": strs(c.Has), "calls": calls, "objcalls": objcalls, "flagsok": flagsok, "attrsok": attrsok,
		"replyok": respOK(reply) && reply.Typ != 0, "unchanged": hexs(s.v.fileData("/f")) == before, "rtyp": reply.T()})
}

type customErr struct{}

func (customErr) Error() string { return "custom handler error text" }

func adMakeErr(name, wrap string) error {
	var e error
	switch {
	case name == "nil":
		return nil
	case strings.HasPrefix(name, "fx:"):
		e = fxerr(name[3] - '0')
	case name == "os.ErrNotExist":
		e = os.ErrNotExist
	case name == "os.ErrPermission":
		e = os.ErrPermission
	case name == "os.ErrExist":
		e = os.ErrExist
	case name == "io.EOF":
		e = io.EOF
	case name == "io.ErrUnexpectedEOF":
		e = io.ErrUnexpectedEOF
	case name == "ENOENT":
		e = syscall.ENOENT
	case name == "EACCES":
		e = syscall.EACCES
	case name == "EPERM":
		e = syscall.EPERM
	case name == "EBADF":
		e = syscall.EBADF
	case name == "EINVAL":
		e = syscall.EINVAL
	default:
		e = customErr{}
	}
	switch wrap {
	case "PathError":
		return &os.PathError{Op: "op", Path: "/some/path", Err: e}
	case "LinkError":
		return &os.LinkError{Op: "link", Old: "/a", New: "/b", Err: e}
	case "SyscallError":
		return os.NewSyscallError("call", e)
	}
	return e
}

func adErrorCase(t testing.TB, tr *tracer, c adCase, i int) {
	s := newSrvSession(t, tr, srvOpts{kind: "rs", quiet: true, quietHandlers: true, hopt: "opvlrk"})
	s.s2c.onWrite = nil
	s.v.addFile("/f", []byte("x"))
	herr := adMakeErr(c.Err, c.Wrap)
	vias := []string{"cmd", "open", "list", "read", "readN", "write", "listat", "listatN"}
	via := vias[i%len(vias)]
	if (c.Err == "nil" || c.Err == "io.EOF" || c.Err == "fx:0" || c.Err == "fx:1") && i%len(vias) >= 3 {
		// success / end-of-data returned by ReadAt, WriteAt, ListAt is the subject of C01 / C13 / C16, not an error to map
		via = vias[i%3]
	}
	s.v.addDir("/dd")
	s.v.addFile("/dd/e1", []byte("1"))
	s.v.addFile("/dd/e2", []byte("2"))
	switch via {
	case "cmd":
		s.v.failAt["cmd:Mkdir"] = herr
	case "open":
		s.v.failAt["open:/f"] = herr
	case "list":
		s.v.failAt["list:/f"] = herr
	case "read", "readN":
		// the handler's reader fails, without (0, err) or with (n > 0, err) data: either way the error is the answer
		s.v.failAt["R:0"] = herr
		s.v.failPartial = via == "readN"
	case "write":
		s.v.failAt["W:0"] = herr
	default:
		s.v.failAt["L:0"] = herr
		s.v.failPartial = via == "listatN"
	}
	go func() { s.rs.Serve(); s.conn.Close(); close(s.serveDone) }()
	cl, err := NewClientPipe(s.s2c, pipeWriteCloser{p: s.c2s})
	if err != nil {
		t.Fatal(err)
	}
	var cerr error
	switch via {
	case "cmd":
		cerr = cl.Mkdir("/newdir")
	case "open":
		var f *File
		f, cerr = cl.Open("/f")
		if cerr == nil && f != nil {
			f.Close()
		}
	case "list":
		_, cerr = cl.Stat("/f")
	case "read", "readN":
		var f *File
		if f, cerr = cl.Open("/f"); cerr == nil {
			_, cerr = f.ReadAt(make([]byte, 1), 0)
			f.Close()
		}
	case "write":
		var f *File
		if f, cerr = cl.OpenFile("/f", os.O_WRONLY); cerr == nil {
			_, cerr = f.WriteAt([]byte("y"), 0)
			f.Close()
		}
	default:
		_, cerr = cl.ReadDir("/dd")
	}
	got, textok := "", true
	var se *StatusError
	switch {
	case cerr == nil:
		got = "nil"
	case cerr == io.EOF:
		got = "eof"
	case errors.Is(cerr, os.ErrNotExist):
		got = "notexist"
	case errors.Is(cerr, os.ErrPermission):
		got = "permission"
	case errors.As(cerr, &se):
		if se.Code == sshFxFailure {
			got = "failure"
			textok = herr != nil && se.msg == herr.Error()
		} else {
			got = fmt.Sprintf("code:%d", se.Code)
		}
	case strings.Contains(cerr.Error(), "unexpected SSH_FX_OK"):
		got = "novalue" // STATUS(OK) arrived where a value was required
	default:
		got = "other:" + cerr.Error()
	}
	if herr == nil && via != "cmd" {
		// a nil error from the open/list handler path means success
	}
	tr.emit("AdError", kv{"err": c.Err, "wrap": c.Wrap, "via": via, "got": got, "textok": textok, "clienterr": errStr(cerr)})
	cl.Close()
	s.waitServe(5 * time.Second)
}

func TestVerif_Adapter(t *testing.T) {
	tr := newTracer(t)
	var cases []adCase
	if !loadScenarios(t, "VERIF_SCEN", &cases) {
		t.Fatal("C10 needs the tables exported from AdapterEnum.tla (VERIF_SCEN)")
	}
	sessions := map[string]*adSession{}
	defer func() {
		for _, a := range sessions {
			a.close()
		}
	}()
	np := 0
	for i, c := range cases {
		switch c.Kind {
		case "path":
			np++
			// quick tier: every case with <= 3 segments, a seeded quarter of the 4-segment ones
			if !vThorough() && len(c.Segs) >= 4 && (np+int(vSeed()))%4 != 0 {
				continue
			}
			// the configured start directory may be written in any form that denotes the same segments: absolute and
			// clean, relative, empty, with dot segments or a trailing slash, or climbing above the root
			var start string
			switch np % 4 {
			case 0:
				start = "/" + strings.Join(c.Start, "/")
			case 1:
				start = strings.Join(c.Start, "/")
			case 2:
				start = "/./" + strings.Join(c.Start, "/./") + "/"
			default:
				start = "../" + strings.Join(c.Start, "/")
			}
			a := sessions[start]
			if a == nil {
				a = newAdSession(t, tr, start, "opvlk") // no RealPath resolver: REALPATH would bypass cleaning by design
				sessions[start] = a
			}
			if np%200 == 1 {
				tr.reset(kv{"kind": "adapter", "table": "path", "i": i})
			}
			adPathCase(t, tr, a, c, i)
		case "dispatch":
			tr.reset(kv{"kind": "adapter", "table": "dispatch", "i": i})
			adDispatchCase(t, tr, c, i)
		case "error":
			for rep := 0; rep < 8; rep++ { // through Filecmd, Fileread, Filelist and the ReadAt / WriteAt / ListAt of their objects
				tr.reset(kv{"kind": "adapter", "table": "error", "i": i, "rep": rep})
				adErrorCase(t, tr, c, i+rep)
			}
		}
	}
}
