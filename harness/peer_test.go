//go:build verif

package sftp

// A scripted SFTP endpoint for the client-side checks (C03, C04, C12, C13, C19, C20).  It speaks the
// protocol with the harness's own codec, derives every reply from the request it answers (so a caller
// can tell whether it got the reply to ITS request), decides which outstanding request is answered
// next, can corrupt replies, and can end either stream at any byte.

import (
	"fmt"
	"hash/fnv"
	"io"
	"sort"
	"sync"
	"testing"
	"time"
)

type heldReq struct {
	f   wframe
	seq int
}

type peer struct {
	extFlag uint32 // 0x80000000: attribute blocks of STAT-like replies carry an extended attribute
	dots    bool   // the first READDIR batch starts with "." and ".."
	t       testing.TB
	tr      *tracer
	c2s     *bpipe // client -> peer
	s2c     *bpipe // peer -> client

	mu           sync.Mutex
	cond         *sync.Cond
	nreq         int
	reqs         []wframe
	held         []heldReq         // received, not yet answered (arrival order)
	hold         bool              // true: requests are kept until the script answers them
	files        map[string][]byte // handle -> content
	fileSize     int               // size of generated files
	readdirN     map[string]int
	failOff      map[string]uint32              // "R:<off>" / "W:<off>" -> status code to answer with
	inPump       int                            // requests taken out of `held` by the pump and not yet answered
	badBytes     []int                          // every READ/WRITE whose range contains one of these positions fails with "E@<lowest>"
	replyFn      func(p *peer, f wframe) []byte // override for reply synthesis (nil = default)
	mutate       func(f wframe, reply []byte) []byte
	quiet        bool
	sent         int            // bytes written to s2c
	ends         map[uint32]int // request id -> end offset (in s2c) of its reply
	desync       bool
	exts         [][2]string
	version      uint32
	readerDone   chan struct{}
	writeFailEOF bool // failing WRITE chunks are answered with SSH_FX_EOF instead of SSH_FX_FAILURE
	halfOpen     bool // the client gets a writer whose Close is a no-op
	closeOnEOF   bool
	closeStatus  uint32 // status code of the replies to CLOSE (0 = SSH_FX_OK): a server may report a failure and release the handle all the same
}

func newPeer(t testing.TB, tr *tracer) *peer {
	p := &peer{t: t, tr: tr, c2s: newBpipe(), s2c: newBpipe(), files: map[string][]byte{}, fileSize: 4096,
		readdirN: map[string]int{}, failOff: map[string]uint32{}, ends: map[uint32]int{}, version: 3,
		readerDone: make(chan struct{}), closeOnEOF: true}
	p.cond = sync.NewCond(&p.mu)
	return p
}

func hash32(s string) uint32 {
	h := fnv.New32a()
	h.Write([]byte(s))
	return h.Sum32()
}

// content of the file behind a handle (generated on first use, position coded, salted by the handle)
func (p *peer) file(h string) []byte {
	if d, ok := p.files[h]; ok {
		return d
	}
	d := posData(p.fileSize, byte(hash32(h)%200))
	p.files[h] = d
	return d
}

func (p *peer) setFile(h string, d []byte) {
	p.mu.Lock()
	p.files[h] = append([]byte(nil), d...)
	p.mu.Unlock()
}

func (p *peer) fileCopy(h string) []byte {
	p.mu.Lock()
	defer p.mu.Unlock()
	return append([]byte(nil), p.file(h)...)
}

// expected values a caller can compute for itself
func peerStatSize(path string) uint64  { return uint64(hash32("S"+path) % 1000000) }
func peerHandle(path string) string    { return "H" + path }
func peerDirHandle(path string) string { return "D" + path }
func peerLink(path string) string      { return "L" + path }
func peerReal(path string) string      { return "/R/" + path }

// firstBad returns the lowest bad byte in [off, off+n), or -1.
func (p *peer) firstBad(off uint64, n int) int {
	best := -1
	for _, b := range p.badBytes {
		if uint64(b) >= off && uint64(b) < off+uint64(n) && (best < 0 || b < best) {
			best = b
		}
	}
	return best
}

// defaultReply derives the reply from the request. Called with p.mu held.
func (p *peer) defaultReply(f wframe) []byte {
	switch f.Typ {
	case tInit:
		return fVersion(p.version, p.exts...)
	case tOpen:
		return fHandle(f.ID, peerHandle(f.Path))
	case tOpendir:
		return fHandle(f.ID, peerDirHandle(f.Path))
	case tClose:
		return fStatus(f.ID, p.closeStatus, fmt.Sprintf("closed %s", f.Handle))
	case tRead:
		if f.Off > 1<<40 {
			return fStatus(f.ID, 4, "offset out of range") // like pread(2) with a negative offset: EINVAL
		}
		if code, ok := p.failOff["R:"+itoa(int(f.Off))]; ok {
			return fStatus(f.ID, code, fmt.Sprintf("E@%d", f.Off))
		}
		d := p.file(f.Handle)
		if f.Off >= uint64(len(d)) {
			return fStatus(f.ID, 1, "EOF")
		}
		end := f.Off + uint64(f.Len)
		if end > uint64(len(d)) {
			end = uint64(len(d))
		}
		if b := p.firstBad(f.Off, int(end-f.Off)); b >= 0 {
			return fStatus(f.ID, 4, fmt.Sprintf("E@%d", b))
		}
		return fData(f.ID, d[f.Off:end])
	case tWrite:
		if f.Off > 1<<40 {
			return fStatus(f.ID, 4, "offset out of range") // like pwrite(2) with a negative offset: EINVAL
		}
		if code, ok := p.failOff["W:"+itoa(int(f.Off))]; ok {
			return fStatus(f.ID, code, fmt.Sprintf("E@%d", f.Off))
		}
		if b := p.firstBad(f.Off, len(f.Data)); b >= 0 {
			code := uint32(4)
			if p.writeFailEOF {
				code = 1 // a failing WRITE answered with the status code SSH_FX_EOF: an error like any other
			}
			return fStatus(f.ID, code, fmt.Sprintf("E@%d", b))
		}
		d := p.file(f.Handle)
		need := int(f.Off) + len(f.Data)
		if len(f.Data) == 0 {
			return fStatus(f.ID, 0, "")
		}
		if need > len(d) {
			nd := make([]byte, need)
			copy(nd, d)
			d = nd
		}
		copy(d[f.Off:], f.Data)
		p.files[f.Handle] = d
		return fStatus(f.ID, 0, "")
	case tFsetstat:
		if f.A.Flags&1 != 0 { // size
			d := p.file(f.Handle)
			nd := make([]byte, f.A.Size)
			copy(nd, d)
			p.files[f.Handle] = nd
		}
		return fStatus(f.ID, 0, "")
	case tStat, tLstat:
		return fAttrs(f.ID, wattrs{Flags: 1 | 4 | p.extFlag, Size: peerStatSize(f.Path), Perm: 0o100644, Ext: [][2]string{{"vendor@example.com", "v1"}}})
	case tFstat:
		return fAttrs(f.ID, wattrs{Flags: 1 | 4 | p.extFlag, Size: uint64(len(p.file(f.Handle))), Perm: 0o100644, Ext: [][2]string{{"vendor@example.com", "v1"}}})
	case tReadlink:
		return fName(f.ID, []wname{{Name: peerLink(f.Path), Long: peerLink(f.Path)}})
	case tRealpath:
		return fName(f.ID, []wname{{Name: peerReal(f.Path), Long: peerReal(f.Path)}})
	case tReaddir:
		n := p.readdirN[f.Handle]
		p.readdirN[f.Handle]++
		if n >= 2 {
			return fStatus(f.ID, 1, "EOF")
		}
		var names []wname
		if p.dots && n == 0 {
			names = append(names, wname{Name: ".", Long: "d .", A: wattrs{Flags: 4, Perm: 0o40755}}, wname{Name: "..", Long: "d ..", A: wattrs{Flags: 4 | p.extFlag, Perm: 0o40755, Ext: [][2]string{{"a@b", "c"}}}})
		}
		for i := 0; i < 3; i++ {
			nm := fmt.Sprintf("e%d-%08x", n*3+i, hash32(f.Handle))
			names = append(names, wname{Name: nm, Long: "long " + nm, A: wattrs{Flags: 1 | 4, Size: uint64(n*3 + i), Perm: 0o100644}})
		}
		return fName(f.ID, names)
	case tExtended:
		switch f.ExtName {
		case "statvfs@openssh.com":
			w := new(wb).u32(f.ID)
			for i := 0; i < 11; i++ {
				w.u64(uint64(hash32(f.Path)%1000) + uint64(i))
			}
			return mkFrame(tExtReply, w.b)
		}
		return fStatus(f.ID, 0, "")
	default:
		return fStatus(f.ID, 0, "")
	}
}

func (p *peer) replyFor(f wframe) []byte {
	var r []byte
	if p.replyFn != nil {
		r = p.replyFn(p, f)
	}
	if r == nil {
		r = p.defaultReply(f)
	}
	if p.mutate != nil {
		r = p.mutate(f, r)
	}
	return r
}

// send writes one reply (p.mu held).
func (p *peer) send(f wframe, reply []byte) {
	p.sent += len(reply)
	p.ends[f.ID] = p.sent
	if !p.quiet {
		rf := parseFrame(reply[4], reply[5:])
		p.tr.emit("PResp", kv{"id": int(f.ID & 0x7fffffff), "typ": rf.T(), "end": p.sent})
	}
	p.s2c.Write(reply)
}

// run is the peer's reader goroutine.
func (p *peer) run() {
	defer close(p.readerDone)
	for {
		f, err := readFrame(p.c2s)
		if err != nil {
			if err != io.EOF {
				p.mu.Lock()
				p.desync = true
				p.mu.Unlock()
				if !p.quiet {
					p.tr.emit("PBad", kv{"err": err.Error()})
				}
			}
			if p.closeOnEOF {
				// like a server process: when its input ends it exits and its output ends too
				p.s2c.CloseWrite(nil)
			}
			return
		}
		p.mu.Lock()
		p.nreq++
		p.reqs = append(p.reqs, f)
		known := f.Typ == tInit || (f.Typ >= tOpen && f.Typ <= tSymlink) || f.Typ == tExtended
		if f.Bad || !known {
			p.desync = true
		}
		if !p.quiet {
			p.tr.emit("PReq", kv{"n": p.nreq, "id": int(f.ID & 0x7fffffff), "typ": f.T(), "h": f.Handle, "off": int(f.Off & 0x7fffffff), "len": int(f.Len & 0x7fffffff),
				"path": f.Path, "bad": f.Bad || !known})
		}
		if p.hold && f.Typ != tInit {
			p.held = append(p.held, heldReq{f, p.nreq})
		} else {
			p.send(f, p.replyFor(f))
		}
		p.cond.Broadcast()
		p.mu.Unlock()
	}
}

func (p *peer) nHeld() int {
	p.mu.Lock()
	defer p.mu.Unlock()
	return len(p.held)
}

func (p *peer) nReqs() int {
	p.mu.Lock()
	defer p.mu.Unlock()
	return p.nreq
}

// answer replies to the i-th held request (0-based, arrival order). Returns false if there is none.
func (p *peer) answer(i int) bool {
	p.mu.Lock()
	defer p.mu.Unlock()
	if i < 0 || i >= len(p.held) {
		return false
	}
	h := p.held[i]
	p.held = append(p.held[:i], p.held[i+1:]...)
	p.send(h.f, p.replyFor(h.f))
	return true
}

// answerWhere replies to the first held request matching pred.
func (p *peer) answerWhere(pred func(f wframe) bool) bool {
	p.mu.Lock()
	defer p.mu.Unlock()
	for i, h := range p.held {
		if pred(h.f) {
			p.held = append(p.held[:i], p.held[i+1:]...)
			p.send(h.f, p.replyFor(h.f))
			return true
		}
	}
	return false
}

func (p *peer) answerAll() {
	for p.answer(0) {
	}
}

func (p *peer) setHold(v bool) {
	p.mu.Lock()
	p.hold = v
	p.mu.Unlock()
}

// pump answers held requests in batches: it waits until `batch` requests are held (or `idle` passes without a
// new arrival) and then answers them in the order given by perm (a function of the batch size). Runs until stop.
func (p *peer) pump(batch int, idle time.Duration, perm func(n int) []int, stop <-chan struct{}) {
	for {
		select {
		case <-stop:
			p.answerAll()
			return
		default:
		}
		deadline := time.Now().Add(idle)
		for p.nHeld() < batch && time.Now().Before(deadline) {
			select {
			case <-stop:
				p.answerAll()
				return
			default:
			}
			time.Sleep(100 * time.Microsecond)
		}
		n := p.nHeld()
		if n == 0 {
			continue
		}
		order := perm(n)
		// answer by original position: convert a permutation of 0..n-1 into successive removals
		p.mu.Lock()
		if n > len(p.held) {
			n = len(p.held)
		}
		batchReqs := append([]heldReq(nil), p.held[:n]...)
		p.held = append([]heldReq(nil), p.held[n:]...)
		for _, k := range order {
			if k >= 0 && k < len(batchReqs) {
				p.send(batchReqs[k].f, p.replyFor(batchReqs[k].f))
			}
		}
		p.mu.Unlock()
	}
}

// client builds a real Client talking to this peer.
func (p *peer) client(opts ...ClientOption) (*Client, error) {
	go p.run()
	if p.halfOpen {
		return NewClientPipe(p.s2c, halfOpenWriter{p: p.c2s}, opts...)
	}
	return NewClientPipe(p.s2c, pipeWriteCloser{p: p.c2s}, opts...)
}

func (p *peer) requests() []wframe {
	p.mu.Lock()
	defer p.mu.Unlock()
	return append([]wframe(nil), p.reqs...)
}

func permIdentity(n int) []int {
	o := make([]int, n)
	for i := range o {
		o[i] = i
	}
	return o
}

func permReverse(n int) []int {
	o := make([]int, n)
	for i := range o {
		o[i] = n - 1 - i
	}
	return o
}

// allPerms of 0..n-1 (n <= 4 in practice)
func allPerms(n int) [][]int {
	if n == 0 {
		return [][]int{{}}
	}
	var out [][]int
	for _, p := range allPerms(n - 1) {
		for i := 0; i <= len(p); i++ {
			q := append(append(append([]int(nil), p[:i]...), n-1), p[i:]...)
			out = append(out, q)
		}
	}
	sort.Slice(out, func(i, j int) bool { return fmt.Sprint(out[i]) < fmt.Sprint(out[j]) })
	return out
}

// ---- client hooks: channel identities as small integers

type chanIDs struct {
	mu sync.Mutex
	m  map[uint64]int
}

func (c *chanIDs) id(addr uint64) int {
	c.mu.Lock()
	defer c.mu.Unlock()
	if c.m == nil {
		c.m = map[uint64]int{}
	}
	if v, ok := c.m[addr]; ok {
		return v
	}
	c.m[addr] = len(c.m) + 1
	return c.m[addr]
}

// clientHook logs the conn-level events of the client (registration and delivery, with channel identity).
func clientHook(tr *tracer, ids *chanIDs, mapGate func(id, off uint64)) hookFn {
	return func(point string, a, b uint64) {
		switch point {
		case "cc.put":
			tr.emit("CcPut", kv{"sid": int(a & 0x7fffffff), "ch": ids.id(b)})
		case "cc.deliver.recv", "cc.deliver.closed", "cc.deliver.senderr", "cc.deliver.bcast":
			tr.emit("CcDeliver", kv{"sid": int(a & 0x7fffffff), "ch": ids.id(b), "how": point[11:]})
		case "cc.closed":
			tr.emit("CcClosed", nil)
		case "cl.map":
			if mapGate != nil {
				mapGate(a, b)
			}
		}
	}
}
