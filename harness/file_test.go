//go:build verif

package sftp

// C01 / C12 / C13: sequences of File method calls on the real client against
//   - the scripted peer (bad bytes -> failing chunks, replies answered in permuted batches),
//   - the RequestServer with instrumented in-memory handlers,
//   - the os-backed Server on a scratch directory,
// for the matrix of client options. Every call is logged with its result, the bytes delivered, the File
// offset afterwards and the served file's content afterwards; TLC checks each against FileProp.tla.

import (
	"bytes"
	"errors"
	"fmt"
	"io"
	"math/rand"
	"os"
	"path/filepath"
	"regexp"
	"strings"
	"sync"
	"testing"
	"time"
)

type fcall struct {
	API    string `json:"api"`
	Off    int    `json:"off"`
	Len    int    `json:"len"`
	Whence int    `json:"whence"`
	Src    string `json:"src"` // ReadFrom source kind: len | size | stat | limited | opaque | conc
}

type fileScenario struct {
	Size  int     `json:"size"`
	Calls []fcall `json:"calls"`
	Bad   []int   `json:"bad"`
	Src   string  `json:"src"`
}

type fileOpts struct {
	backend   string // peer | rs | rs+alloc | server | server+alloc
	p         int    // max packet
	conc      int
	concReads bool
	concWrite bool
	fstat     bool
	unchecked bool
}

func (o fileOpts) kv() kv {
	return kv{"backend": o.backend, "p": o.p, "conc": o.conc, "creads": o.concReads, "cwrites": o.concWrite, "fstat": o.fstat}
}

func (o fileOpts) clientOpts() []ClientOption {
	mp := MaxPacketChecked(o.p)
	if o.unchecked {
		mp = MaxPacketUnchecked(o.p)
	}
	return []ClientOption{mp, MaxConcurrentRequestsPerFile(o.conc), UseConcurrentReads(o.concReads), UseConcurrentWrites(o.concWrite), UseFstat(o.fstat)}
}

var reErrAt = regexp.MustCompile(`E@(\d+)`)

func errClass(err error) string {
	switch {
	case err == nil:
		return ""
	case err == io.EOF:
		return "EOF"
	case errors.Is(err, os.ErrClosed):
		return "closed"
	case errors.Is(err, os.ErrInvalid):
		return "invalid"
	}
	s := err.Error()
	if m := reErrAt.FindString(s); m != "" {
		return m
	}
	if len(s) > 14 && s[:14] == "sftp: unimplem" {
		return "whence"
	}
	return "other:" + s
}

// ---- sources for ReadFrom (each counts what is consumed, and exposes exactly one size hint)

type countR struct {
	r io.Reader
	n *int
}

func (c countR) Read(p []byte) (int, error) { k, err := c.r.Read(p); *c.n += k; return k, err }

type lenSrc struct {
	countR
	b *bytes.Reader
}

func (l lenSrc) Len() int { return l.b.Len() }

type sizeSrc struct {
	countR
	size int64
}

func (s sizeSrc) Size() int64 { return s.size }

type statSrc struct {
	countR
	size int64
}

func (s statSrc) Stat() (os.FileInfo, error) {
	return &vnode{name: "src", data: make([]byte, s.size)}, nil
}

func makeSrc(kind string, data []byte, consumed *int) io.Reader {
	br := bytes.NewReader(data)
	c := countR{br, consumed}
	switch kind {
	case "len":
		return lenSrc{c, br}
	case "size":
		return sizeSrc{c, int64(len(data))}
	case "stat":
		return statSrc{c, int64(len(data))}
	case "limited":
		return &io.LimitedReader{R: c, N: int64(len(data))}
	}
	return c
}

// ---- backends

type fileBackend struct {
	o    fileOpts
	t    testing.TB
	tr   *tracer
	pr   *peer
	sess *srvSession
	cl   *Client
	root string
	stop chan struct{}
	c2s  *bpipe
	s2c  *bpipe
	// closeFails: the server answers CLOSE with a failure status
	closeFails bool
	// wfailEOF: failing WRITE chunks are answered with SSH_FX_EOF
	wfailEOF bool
}

func newFileBackend(t testing.TB, tr *tracer, o fileOpts, content []byte, bad []int, seed int64) *fileBackend {
	b := &fileBackend{o: o, t: t, tr: tr}
	var err error
	switch o.backend {
	case "peer":
		b.pr = newPeer(t, tr)
		b.pr.quiet = false
		b.pr.hold = true
		b.pr.badBytes = bad
		b.pr.setFile(peerHandle("/f"), content)
		b.stop = make(chan struct{})
		r := rand.New(rand.NewSource(seed))
		var rmu sync.Mutex
		go b.pr.pump(3, 300*time.Microsecond, func(n int) []int {
			o := permIdentity(n)
			rmu.Lock()
			r.Shuffle(n, func(i, j int) { o[i], o[j] = o[j], o[i] })
			rmu.Unlock()
			return o
		}, b.stop)
		b.cl, err = b.pr.client(o.clientOpts()...)
	default:
		so := srvOpts{quiet: true, quietHandlers: true, hopt: "opvlrk"}
		switch o.backend {
		case "rs":
			so.kind = "rs"
		case "rs+alloc":
			so.kind, so.alloc = "rs", true
		case "server":
			so.kind = "server"
		case "server+alloc":
			so.kind, so.alloc = "server", true
		}
		if so.kind == "server" {
			b.root = prepRoot(t, "froot")
			os.WriteFile(filepath.Join(b.root, "f"), content, 0o644)
		}
		b.sess = newSrvSession(t, tr, so)
		b.sess.s2c.onWrite = nil // the client reads the server's output directly
		if b.sess.v != nil {
			b.sess.v.addFile("/f", content)
			b.sess.v.badBytes = bad
		}
		go func() {
			if b.sess.srv != nil {
				b.sess.srv.Serve()
			} else {
				b.sess.rs.Serve()
			}
			// like an ssh session: when the server side ends, its output stream ends too
			b.sess.conn.Close()
			close(b.sess.serveDone)
		}()
		b.cl, err = NewClientPipe(b.sess.s2c, pipeWriteCloser{p: b.sess.c2s}, o.clientOpts()...)
	}
	if err != nil {
		t.Fatalf("client: %v", err)
	}
	return b
}

func (b *fileBackend) path() string {
	if b.root != "" {
		return filepath.Join(b.root, "f")
	}
	return "/f"
}

func (b *fileBackend) content() []byte {
	switch {
	case b.pr != nil:
		return b.pr.fileCopy(peerHandle("/f"))
	case b.sess.v != nil:
		return b.sess.v.fileData("/f")
	default:
		d, _ := os.ReadFile(filepath.Join(b.root, "f"))
		return d
	}
}

func (b *fileBackend) close() {
	if b.stop != nil {
		close(b.stop)
		b.pr.setHold(false)
		b.pr.answerAll()
	}
	done := make(chan struct{})
	go func() { b.cl.Close(); close(done) }()
	select {
	case <-done:
	case <-time.After(10 * time.Second):
	}
	if b.sess != nil {
		b.sess.waitServe(5 * time.Second)
		b.sess.conn.Close()
	}
}

type captureW struct{ buf []byte }

func (c *captureW) Write(p []byte) (int, error) { c.buf = append(c.buf, p...); return len(p), nil }

// runFileScenario executes the calls and logs FCall / FRet pairs.
func runFileScenario(t testing.TB, tr *tracer, o fileOpts, sc fileScenario, seed int64) {
	content := posData(sc.Size, byte(seed%200))
	hdr := o.kv()
	hdr["kind"] = "file"
	hdr["size"] = sc.Size
	hdr["src"] = sc.Src
	hdr["calls"] = sc.Calls
	tr.reset(hdr)
	b := newFileBackend(t, tr, o, content, sc.Bad, seed)
	defer b.close()
	// in one scenario out of five a failing WRITE is answered with the status code SSH_FX_EOF (which the client turns into io.EOF):
	// an error like any other - it must not be taken for "the source is exhausted"
	if seed%5 == 2 && len(sc.Bad) > 0 {
		switch {
		case b.pr != nil:
			b.pr.mu.Lock()
			b.pr.writeFailEOF = true
			b.pr.mu.Unlock()
			b.wfailEOF = true
		case b.sess != nil && b.sess.v != nil:
			b.sess.v.writeFailEOF = true
			b.wfailEOF = true
		}
	}
	// in one scenario out of four the server answers CLOSE with a failure status (having released the handle)
	if seed%4 == 1 {
		switch {
		case b.pr != nil:
			b.pr.mu.Lock()
			b.pr.closeStatus = 4
			b.pr.mu.Unlock()
			b.closeFails = true
		case b.sess != nil && b.sess.v != nil:
			b.sess.v.closeErrEvery = 1
			b.closeFails = true
		}
	}
	f, err := b.cl.OpenFile(b.path(), os.O_RDWR)
	if err != nil {
		t.Fatalf("open: %v", err)
	}
	bad := sc.Bad
	if bad == nil {
		bad = []int{}
	}
	tr.emit("FInit", kv{"content": ints(content), "bad": bad})
	wsalt := 0
	for _, c := range sc.Calls {
		ev := kv{"api": c.API, "off": c.Off, "len": c.Len, "whence": c.Whence, "srvfail": b.closeFails}
		var data []byte
		switch c.API {
		case "WriteAt", "Write", "ReadFrom":
			wsalt++
			data = make([]byte, c.Len)
			for i := range data {
				data[i] = byte(100 + (wsalt*31+i)%150)
			}
			ev["data"] = ints(data)
			ev["srckind"] = c.Src
		}
		tr.emit("FCall", ev)
		posBefore := int64(0)
		if p0, e := f.Seek(0, io.SeekCurrent); e == nil {
			posBefore = p0
		}
		n, consumed := 0, 0
		var delivered []byte
		var cerr error
		switch c.API {
		case "ReadAt":
			buf := make([]byte, c.Len)
			n, cerr = f.ReadAt(buf, int64(c.Off))
			delivered = buf[:min(max(n, 0), len(buf))]
		case "Read":
			buf := make([]byte, c.Len)
			n, cerr = f.Read(buf)
			delivered = buf[:min(max(n, 0), len(buf))]
		case "WriteTo":
			w := &captureW{}
			var n64 int64
			n64, cerr = f.WriteTo(w)
			n = int(n64)
			delivered = w.buf
		case "WriteAt":
			n, cerr = f.WriteAt(data, int64(c.Off))
		case "Write":
			n, cerr = f.Write(data)
		case "ReadFrom":
			var n64 int64
			if c.Src == "conc" {
				n64, cerr = f.ReadFromWithConcurrency(makeSrc("opaque", data, &consumed), c.Whence)
			} else {
				n64, cerr = f.ReadFrom(makeSrc(c.Src, data, &consumed))
			}
			n = int(n64)
		case "Seek":
			var p int64
			p, cerr = f.Seek(int64(c.Off), c.Whence)
			n = int(p)
		case "Stat":
			var fi os.FileInfo
			fi, cerr = f.Stat()
			if cerr == nil {
				n = int(fi.Size())
			}
		case "Truncate":
			cerr = f.Truncate(int64(c.Len))
		case "Close":
			cerr = f.Close()
		}
		// a cancelled transfer may leave requests in flight that nobody waits for: let the peer answer them before the
		// served file is looked at, so that their effect is attributed to this call and not to the next one
		if b.pr != nil {
			idle := func() bool {
				if b.pr.c2s.pending() != 0 { // requests written by the client that the peer has not parsed yet
					return false
				}
				b.pr.mu.Lock()
				defer b.pr.mu.Unlock()
				return len(b.pr.held) == 0 && b.pr.inPump == 0
			}
			waitFor(2*time.Second, func() bool {
				if !idle() {
					return false
				}
				n := b.pr.nReqs()
				time.Sleep(50 * time.Microsecond)
				return idle() && b.pr.nReqs() == n
			})
		}
		if b.pr == nil {
			// real servers answer a request after they have applied it: once the client has no request in flight any more,
			// the abandoned chunks of a cancelled transfer have taken their effect
			waitFor(2*time.Second, func() bool {
				b.cl.clientConn.Lock()
				n := len(b.cl.clientConn.inflight)
				b.cl.clientConn.Unlock()
				return n == 0
			})
		}
		pos := -1
		if p, e := f.Seek(0, io.SeekCurrent); e == nil {
			pos = int(p)
		}
		if delivered == nil {
			delivered = []byte{}
		}
		ec := errClass(cerr)
		if c.API == "Close" && strings.HasPrefix(ec, "other:") {
			ec = "fail"
		}
		if b.wfailEOF && cerr == io.EOF && (c.API == "WriteAt" || c.API == "Write" || c.API == "ReadFrom") {
			// every failing chunk carries the same io.EOF: name it after the lowest bad byte of the range written, as the server did
			start := posBefore
			if c.API == "WriteAt" {
				start = int64(c.Off)
			}
			low := -1
			for _, x := range sc.Bad {
				if int64(x) >= start && int64(x) < start+int64(len(data)) && (low < 0 || x < low) {
					low = x
				}
			}
			if low >= 0 {
				ec = fmt.Sprintf("E@%d", low)
			}
		}
		tr.emit("FRet", kv{"n": n, "err": ec, "data": ints(delivered), "pos": pos, "after": ints(b.content()), "consumed": consumed})
	}
}

// ---- scenario generation

func boundary(r *rand.Rand, p, size, conc int) int {
	c := []int{0, 1, p - 1, p, p + 1, 2*p - 1, 2 * p, 2*p + 1, size - 1, size, size + 1, p*conc + 1, p * (conc + 2)}
	v := c[r.Intn(len(c))]
	if r.Intn(5) == 0 {
		v = r.Intn(3*p + 4)
	}
	if v < 0 {
		v = 0
	}
	if v > 60 {
		v = 60
	}
	return v
}

func genFileScenario(r *rand.Rand, o fileOpts, withBad bool, lifecycle bool) fileScenario {
	size := boundary(r, o.p, 7*o.p, o.conc)
	sc := fileScenario{Size: size, Src: "gen"}
	ncalls := 1 + r.Intn(5)
	cur := size
	for i := 0; i < ncalls; i++ {
		var c fcall
		apis := []string{"ReadAt", "Read", "WriteTo", "WriteAt", "Write", "ReadFrom", "Seek"}
		if lifecycle {
			apis = append(apis, "Seek", "Seek", "Stat", "Truncate", "Close", "Read", "Write")
		}
		c.API = apis[r.Intn(len(apis))]
		switch c.API {
		case "ReadAt":
			c.Off, c.Len = boundary(r, o.p, cur, o.conc), boundary(r, o.p, cur, o.conc)
		case "Read":
			c.Len = boundary(r, o.p, cur, o.conc)
		case "WriteAt":
			c.Off, c.Len = boundary(r, o.p, cur, o.conc), boundary(r, o.p, cur, o.conc)
		case "Write":
			c.Len = boundary(r, o.p, cur, o.conc)
		case "ReadFrom":
			c.Len = boundary(r, o.p, cur, o.conc)
			c.Src = []string{"len", "size", "stat", "limited", "opaque", "conc"}[r.Intn(6)]
			c.Whence = []int{0, 1, 2, 3, 100}[r.Intn(5)] // concurrency argument of ReadFromWithConcurrency
		case "Seek":
			c.Whence = []int{0, 1, 2, 0, 1, 2, 3}[r.Intn(7)]
			c.Off = []int{0, 1, -1, cur, -cur, cur + 1, -cur - 1, o.p, -o.p}[r.Intn(9)]
		case "Truncate":
			c.Len = boundary(r, o.p, cur, o.conc)
		}
		sc.Calls = append(sc.Calls, c)
	}
	if withBad && size > 0 {
		nb := 1 + r.Intn(2)
		if r.Intn(6) == 0 {
			nb = 3
		}
		for i := 0; i < nb; i++ {
			sc.Bad = append(sc.Bad, r.Intn(size))
		}
		// writes may extend the file: allow bad bytes in the extension too
		if r.Intn(3) == 0 {
			sc.Bad = append(sc.Bad, size+r.Intn(2*o.p+1))
		}
	}
	return sc
}

func fileOptsMatrix(r *rand.Rand, backends []string, n int) []fileOpts {
	ps := []int{1, 2, 3, 5, 8, 64}
	concs := []int{1, 2, 3, 64}
	var out []fileOpts
	for i := 0; i < n; i++ {
		out = append(out, fileOpts{backend: backends[i%len(backends)], p: ps[r.Intn(len(ps))], conc: concs[r.Intn(len(concs))],
			concReads: r.Intn(4) != 0, concWrite: r.Intn(2) == 0, fstat: r.Intn(2) == 0})
	}
	return out
}

// TestVerif_FileExact: no failures; real servers and peer (C01, and the offset clauses of C12).
func TestVerif_FileExact(t *testing.T) {
	tr := newTracer(t)
	installHook(t, clientHook(tr, &chanIDs{}, nil))
	r := vRand(5)
	n := 260
	if vThorough() {
		n = 8000
	}
	var tlcScs []fileScenario
	loadScenarios(t, "VERIF_SCEN", &tlcScs)
	backends := []string{"rs", "server", "rs+alloc", "server+alloc", "peer"}
	for i, o := range fileOptsMatrix(r, backends, n) {
		sc := genFileScenario(r, o, false, i%3 == 0)
		if len(tlcScs) > 0 && i%4 == 1 {
			sc = tlcScs[(i/4)%len(tlcScs)]
			sc.Src = "tlc"
		}
		runFileScenario(t, tr, o, sc, vSeed()*7919+int64(i))
	}
	// a few large transfers with realistic packet sizes (payloads logged like the small ones would be too big: sizes only)
}

// TestVerif_FilePartial: the peer fails every request that covers a bad byte; replies come back permuted (C13).
func TestVerif_FilePartial(t *testing.T) {
	tr := newTracer(t)
	mapDelay := vRand(77)
	var mu sync.Mutex
	installHook(t, clientHook(tr, &chanIDs{}, func(id, off uint64) {
		mu.Lock()
		d := mapDelay.Intn(4)
		mu.Unlock()
		if d == 0 {
			time.Sleep(60 * time.Microsecond) // let another map worker reach the reducer first
		}
	}))
	r := vRand(6)
	n := 400
	if vThorough() {
		n = 12000
	}
	// the peer controls the reply order; the real RequestServer (failing handlers) puts the real server in the loop
	for i, o := range fileOptsMatrix(r, []string{"peer", "peer", "rs", "peer", "rs+alloc"}, n) {
		sc := genFileScenario(r, o, true, false)
		runFileScenario(t, tr, o, sc, vSeed()*104729+int64(i))
	}
}

var _ = fmt.Sprint

// TestVerif_CloseRace (C12): Close races with ReadAt / WriteAt / Stat / Truncate / Chmod running in other
// goroutines.  The peer logs every request it receives: exactly one CLOSE per handle, and nothing on the
// handle after it.  Afterwards every method must fail with os.ErrClosed.
func TestVerif_CloseRace(t *testing.T) {
	tr := newTracer(t)
	rounds := 300
	if vThorough() {
		rounds = 6000
	}
	r := vRand(12)
	for i := 0; i < rounds; i++ {
		G := 2 + r.Intn(4)
		tr.reset(kv{"kind": "closerace", "G": G, "round": i})
		pr := newPeer(t, tr)
		content := posData(64, byte(i))
		pr.setFile(peerHandle("/f"), content)
		if i%4 == 3 {
			pr.closeStatus = 4 // the CLOSE is answered with a failure status: the File is closed all the same
		}
		// a slow transport: senders queue up on the connection's write mutex, which stretches the window between a
		// method's check of the handle and its request reaching the wire
		pr.c2s.afterWrite = func(b []byte) { time.Sleep(20 * time.Microsecond) }
		cl, err := pr.client(MaxPacketChecked(32))
		if err != nil {
			t.Fatal(err)
		}
		f, err := cl.OpenFile("/f", os.O_RDWR)
		if err != nil {
			t.Fatal(err)
		}
		tr.emit("FInit", kv{"content": ints(content), "bad": []int{}})
		var wg sync.WaitGroup
		stop := make(chan struct{})
		for g := 0; g < G; g++ {
			wg.Add(1)
			go func(g int) {
				defer wg.Done()
				buf := make([]byte, 8)
				for k := 0; ; k++ {
					select {
					case <-stop:
						return
					default:
					}
					var err error
					op := (g + k) % 5
					if i%2 == 0 {
						op = (i / 2) % 5 // every other round all goroutines hammer the same method
					}
					if g == 0 && i%3 == 0 {
						cl.Lstat("/other") // unrelated traffic on the same connection
					}
					switch op {
					case 0:
						_, err = f.ReadAt(buf, int64(k%50))
					case 1:
						_, err = f.WriteAt(content[8:16], 8) // rewrites what is there: the content never changes
					case 2:
						_, err = f.Stat()
					case 3:
						err = f.Truncate(64)
					default:
						err = f.Chmod(0o644)
					}
					if errors.Is(err, os.ErrClosed) {
						return
					}
				}
			}(g)
		}
		time.Sleep(time.Duration(r.Intn(400)) * time.Microsecond)
		tr.emit("FCall", kv{"api": "Close", "off": 0, "len": 0, "whence": 0, "srvfail": i%4 == 3})
		cerr := f.Close()
		close(stop)
		wg.Wait()
		cec := errClass(cerr)
		if strings.HasPrefix(cec, "other:") {
			cec = "fail"
		}
		tr.emit("FRet", kv{"n": 0, "err": cec, "data": []int{}, "pos": -1, "after": ints(pr.fileCopy(peerHandle("/f"))), "consumed": 0})
		// every method on the closed File
		for _, api := range []string{"ReadAt", "Read", "WriteTo", "WriteAt", "Write", "ReadFrom", "Seek", "Stat", "Truncate", "Close"} {
			data := []byte{1, 2, 3}
			tr.emit("FCall", kv{"api": api, "off": 0, "len": 3, "whence": 0, "data": ints(data), "srckind": "len", "srvfail": i%4 == 3})
			n := 0
			var e error
			switch api {
			case "ReadAt":
				n, e = f.ReadAt(make([]byte, 3), 0)
			case "Read":
				n, e = f.Read(make([]byte, 3))
			case "WriteTo":
				var n64 int64
				n64, e = f.WriteTo(io.Discard)
				n = int(n64)
			case "WriteAt":
				n, e = f.WriteAt(data, 0)
			case "Write":
				n, e = f.Write(data)
			case "ReadFrom":
				var n64 int64
				n64, e = f.ReadFrom(bytes.NewReader(data))
				n = int(n64)
			case "Seek":
				var p int64
				p, e = f.Seek(0, io.SeekStart)
				n = int(p)
			case "Stat":
				_, e = f.Stat()
			case "Truncate":
				e = f.Truncate(1)
			case "Close":
				e = f.Close()
			}
			tr.emit("FRet", kv{"n": n, "err": errClass(e), "data": []int{}, "pos": -1, "after": ints(pr.fileCopy(peerHandle("/f"))), "consumed": 0})
		}
		cl.Close()
	}
}

// TestVerif_FileBig (C01): transfers with the default / realistic packet sizes and sizes around packet x max-concurrent-requests.
func TestVerif_FileBig(t *testing.T) {
	tr := newTracer(t)
	sizes := []int{0, 1, 32767, 32768, 32769, 65537, 32768*64 + 1}
	if vThorough() {
		sizes = append(sizes, 32768*64-1, 32768*64, 3<<20+5, 32768*3, 100000)
	}
	type cfg struct {
		backend string
		opts    []ClientOption
		name    string
		maxTx   uint32
	}
	cfgs := []cfg{
		{"rs", nil, "default", 0}, {"server", nil, "default", 0}, {"rs+alloc", nil, "default", 0}, {"server+alloc", nil, "default", 0},
		{"server", []ClientOption{UseConcurrentWrites(true)}, "cwrites", 0}, {"rs+alloc", []ClientOption{UseConcurrentWrites(true), MaxConcurrentRequestsPerFile(3)}, "cwrites,conc3", 0},
		{"server+alloc", []ClientOption{UseConcurrentReads(false)}, "seqreads", 0}, {"rs", []ClientOption{MaxPacketChecked(4096), UseFstat(true)}, "p4096,fstat", 0},
		{"server", []ClientOption{MaxPacketUnchecked(60000)}, "p60000,maxtx65536", 65536}, {"rs+alloc", []ClientOption{MaxPacketUnchecked(65536)}, "p65536,maxtx65536", 65536},
	}
	for ci, c := range cfgs {
		for si, size := range sizes {
			if !vThorough() && (ci+si+int(vSeed()))%2 != 0 {
				continue
			}
			content := posData(size, byte(ci+si))
			tr.reset(kv{"kind": "filebig", "backend": c.backend, "opts": c.name, "size": size})
			so := srvOpts{quiet: true, quietHandlers: true, hopt: "opvlrk", maxTx: c.maxTx}
			switch c.backend {
			case "rs":
				so.kind = "rs"
			case "rs+alloc":
				so.kind, so.alloc = "rs", true
			case "server":
				so.kind = "server"
			default:
				so.kind, so.alloc = "server", true
			}
			root := ""
			if so.kind == "server" {
				root = prepRoot(t, "bigroot")
				os.WriteFile(filepath.Join(root, "f"), content, 0o644)
			}
			sess := newSrvSession(t, tr, so)
			sess.s2c.onWrite = nil
			if sess.v != nil {
				sess.v.addFile("/f", content)
			}
			go func() {
				if sess.srv != nil {
					sess.srv.Serve()
				} else {
					sess.rs.Serve()
				}
				sess.conn.Close()
				close(sess.serveDone)
			}()
			cl, err := NewClientPipe(sess.s2c, pipeWriteCloser{p: sess.c2s}, c.opts...)
			if err != nil {
				t.Fatal(err)
			}
			p := "/f"
			if root != "" {
				p = filepath.Join(root, "f")
			}
			served := func(name string) []byte {
				if sess.v != nil {
					return sess.v.fileData("/" + name)
				}
				d, _ := os.ReadFile(filepath.Join(root, name))
				return d
			}
			pos := func(f *File) int {
				if o, e := f.Seek(0, io.SeekCurrent); e == nil {
					return int(o)
				}
				return -1
			}
			// download: WriteTo
			f, _ := cl.Open(p)
			w := &captureW{}
			n64, e := f.WriteTo(w)
			tr.emit("FBig", kv{"api": "WriteTo", "size": size, "n": int(n64), "err": errClass(e), "equal": bytes.Equal(w.buf, content), "pos": pos(f), "wantpos": size})
			// ReadAt of the whole file + 1 (EOF expected when the buffer is larger than the file)
			buf := make([]byte, size)
			n, e := f.ReadAt(buf, 0)
			tr.emit("FBig", kv{"api": "ReadAt", "size": size, "n": n, "err": errClass(e), "equal": bytes.Equal(buf[:max(n, 0)], content), "pos": pos(f), "wantpos": size})
			f.Close()
			// upload: ReadFrom into a new file, then WriteAt into another
			up := "/up"
			if root != "" {
				up = filepath.Join(root, "up")
			}
			g, e := cl.Create(up)
			if e != nil {
				// a Create that fails in the middle of a healthy session is a finding, not a harness problem
				tr.emit("FBig", kv{"api": "ReadFrom", "size": size, "n": 0, "err": "create: " + errClass(e), "equal": false, "pos": 0, "wantpos": size})
				cl.Close()
				sess.waitServe(5 * time.Second)
				continue
			}
			n64, e = g.ReadFrom(bytes.NewReader(content))
			gp := pos(g)
			g.Close()
			tr.emit("FBig", kv{"api": "ReadFrom", "size": size, "n": int(n64), "err": errClass(e), "equal": bytes.Equal(served("up"), content), "pos": gp, "wantpos": size})
			up2 := "/up2"
			if root != "" {
				up2 = filepath.Join(root, "up2")
			}
			h, e := cl.Create(up2)
			if e != nil {
				tr.emit("FBig", kv{"api": "WriteAt", "size": size, "n": 0, "err": "create: " + errClass(e), "equal": false, "pos": 0, "wantpos": 0})
				cl.Close()
				sess.waitServe(5 * time.Second)
				continue
			}
			n, e = h.WriteAt(content, 0)
			hp := pos(h)
			h.Close()
			tr.emit("FBig", kv{"api": "WriteAt", "size": size, "n": n, "err": errClass(e), "equal": bytes.Equal(served("up2"), content), "pos": hp, "wantpos": 0})
			cl.Close()
			sess.waitServe(5 * time.Second)
		}
	}
}
