//go:build verif

package sftp

// C05: operation sequences over a small name universe executed through Client + os-backed Server on tree T1 and with the
// corresponding package os calls on an identical tree T2; after every step both results and both trees are compared.
// Sequences come from random walks of FsModel.tla (with the model's predicted category per step) and a seeded generator
// that also uses the composite operations (MkdirAll, RemoveAll, Glob, Walk) and Chtimes / RealPath / StatVFS.

import (
	"errors"
	"fmt"
	"math/rand"
	"os"
	"path"
	"path/filepath"
	"sort"
	"strings"
	"syscall"
	"testing"
	"time"
)

type fsStep struct {
	Op  string   `json:"op"`
	P   []string `json:"p"`
	Q   []string `json:"q"`
	K   string   `json:"k"`
	Cat string   `json:"cat"` // the model's prediction ("" = not modelled)
}

func errCat(err error) string {
	switch {
	case err == nil:
		return "ok"
	case errors.Is(err, os.ErrNotExist):
		return "notexist"
	case errors.Is(err, os.ErrPermission):
		return "permission"
	}
	return "other"
}

func infoVal(fi os.FileInfo) string {
	k := "file"
	switch {
	case fi.IsDir():
		k = "dir"
	case fi.Mode()&os.ModeSymlink != 0:
		k = "link"
	}
	sz := fi.Size()
	if k == "dir" {
		sz = 0
	}
	return fmt.Sprintf("%s:%d:%o", k, sz, fi.Mode().Perm())
}

// treeSnap: names, kinds, sizes, permission bits, link targets (root prefix normalised)
func treeSnap(root string) string {
	var parts []string
	filepath.Walk(root, func(p string, fi os.FileInfo, err error) error {
		if err != nil || p == root {
			return nil
		}
		s := strings.TrimPrefix(p, root) + "|" + infoVal(fi)
		if fi.Mode()&os.ModeSymlink != 0 {
			l, _ := os.Readlink(p)
			s += "|->" + strings.ReplaceAll(l, root, "$ROOT")
		}
		if fi.Mode().IsRegular() {
			var st syscall.Stat_t
			if syscall.Stat(p, &st) == nil {
				s += fmt.Sprintf("|nlink=%d", st.Nlink)
			}
		}
		parts = append(parts, s)
		return nil
	})
	sort.Strings(parts)
	return strings.Join(parts, ";")
}

type fsPair struct {
	t1, t2 string // roots
	rel    bool   // client paths relative to the server's working directory
	cl     *Client
}

func (f *fsPair) sp(p []string) string { // path as the client sends it
	j := strings.Join(p, "/")
	if f.rel {
		if j == "" {
			return "."
		}
		return j
	}
	return f.t1 + "/" + j
}
func (f *fsPair) op(p []string) string { return f.t2 + "/" + strings.Join(p, "/") }
func (f *fsPair) norm(s string) string {
	return strings.ReplaceAll(strings.ReplaceAll(s, f.t1, "$ROOT"), f.t2, "$ROOT")
}

func linkText(k string) string { return map[string]string{"la": "a", "lb": "b", "lc": "c"}[k] }

func names(fis []os.FileInfo) string {
	var n []string
	for _, fi := range fis {
		n = append(n, fi.Name()+"="+infoVal(fi))
	}
	sort.Strings(n)
	return strings.Join(n, ",")
}

// do executes one step on both sides. Returns (sftp err, sftp value, os err, os value).
func (f *fsPair) do(s fsStep) (error, string, error, string) {
	cl := f.cl
	sp, op := f.sp(s.P), f.op(s.P)
	var se, oe error
	sv, ov := "", ""
	switch s.Op {
	case "Mkdir":
		se, oe = cl.Mkdir(sp), os.Mkdir(op, 0o755)
	case "Remove":
		se, oe = cl.Remove(sp), os.Remove(op)
	case "RemoveDirectory":
		se, oe = cl.RemoveDirectory(sp), os.Remove(op) // the server maps RMDIR onto os.Remove
	case "Rename":
		se, oe = cl.Rename(sp, f.sp(s.Q)), os.Rename(op, f.op(s.Q))
	case "PosixRename":
		se, oe = cl.PosixRename(sp, f.sp(s.Q)), os.Rename(op, f.op(s.Q))
	case "Link":
		se, oe = cl.Link(sp, f.sp(s.Q)), os.Link(op, f.op(s.Q))
	case "Symlink":
		se, oe = cl.Symlink(linkText(s.K), f.sp(s.Q)), os.Symlink(linkText(s.K), f.op(s.Q))
	case "Stat":
		var a, b os.FileInfo
		a, se = cl.Stat(sp)
		b, oe = os.Stat(op)
		if se == nil && oe == nil {
			sv, ov = infoVal(a), infoVal(b)
		}
	case "Lstat":
		var a, b os.FileInfo
		a, se = cl.Lstat(sp)
		b, oe = os.Lstat(op)
		if se == nil && oe == nil {
			sv, ov = infoVal(a), infoVal(b)
		}
	case "ReadLink":
		sv, se = cl.ReadLink(sp)
		ov, oe = os.Readlink(op)
		sv, ov = f.norm(sv), f.norm(ov)
	case "Create":
		var a *File
		a, se = cl.Create(sp)
		if se == nil {
			a.Close()
		}
		var b *os.File
		b, oe = os.OpenFile(op, os.O_RDWR|os.O_CREATE|os.O_TRUNC, 0o666)
		if oe == nil {
			b.Close()
		}
	case "OpenFile": // OpenFile with the flag combinations Create does not cover; K names the combination
		fl := map[string]int{"r": os.O_RDONLY, "wt": os.O_WRONLY | os.O_TRUNC, "rwt": os.O_RDWR | os.O_TRUNC, "wcx": os.O_WRONLY | os.O_CREATE | os.O_EXCL,
			"wa": os.O_WRONLY | os.O_APPEND, "wc": os.O_WRONLY | os.O_CREATE, "rwc": os.O_RDWR | os.O_CREATE, "wct": os.O_WRONLY | os.O_CREATE | os.O_TRUNC}[s.K]
		var a *File
		a, se = cl.OpenFile(sp, fl)
		if se == nil {
			// no data is written through the handle: where File.Write puts bytes is not a name-space or metadata matter
			// (the server documents SSH_FXF_APPEND as a no-op: the client sends offsets)
			a.Close()
		}
		var b *os.File
		b, oe = os.OpenFile(op, fl, 0o666)
		if oe == nil {
			b.Close()
		}
	case "Write": // make a file non-empty, so that truncation and sizes mean something
		var a *File
		a, se = cl.OpenFile(sp, os.O_WRONLY)
		if se == nil {
			_, se = a.Write([]byte("0123456789"))
			a.Close()
		}
		var b *os.File
		b, oe = os.OpenFile(op, os.O_WRONLY, 0)
		if oe == nil {
			_, oe = b.Write([]byte("0123456789"))
			b.Close()
		}
	case "Truncate":
		se, oe = cl.Truncate(sp, 3), os.Truncate(op, 3)
	case "Chmod":
		se, oe = cl.Chmod(sp, 0o600), os.Chmod(op, 0o600)
	case "Chtimes":
		tm := time.Unix(1500000000, 0)
		se, oe = cl.Chtimes(sp, tm, tm), os.Chtimes(op, tm, tm)
		if se == nil && oe == nil {
			a, _ := os.Stat(filepath.Join(f.t1, strings.Join(s.P, "/")))
			b, _ := os.Stat(op)
			if a != nil && b != nil {
				sv, ov = fmt.Sprint(a.ModTime().Unix()), fmt.Sprint(b.ModTime().Unix())
			}
		}
	case "ReadDir":
		var a []os.FileInfo
		a, se = cl.ReadDir(sp)
		var des []os.DirEntry
		des, oe = os.ReadDir(op)
		var b []os.FileInfo
		for _, de := range des {
			if fi, err := de.Info(); err == nil {
				b = append(b, fi)
			}
		}
		sv, ov = names(a), names(b)
	case "MkdirAll":
		se, oe = cl.MkdirAll(sp), os.MkdirAll(op, 0o755)
	case "RemoveAll":
		// os.RemoveAll returns nil for a missing path; Client.RemoveAll documents an error for it: compared only when it exists
		_, lerr := os.Lstat(op)
		if lerr != nil {
			return nil, "skipped", nil, "skipped"
		}
		se, oe = cl.RemoveAll(sp), os.RemoveAll(op)
	case "Glob":
		pat := "*"
		if len(s.P) > 0 {
			pat = strings.Join(s.P, "/") + "/*"
		}
		switch s.K {
		case "wild":
			pat = "*/*" // meta characters in the directory part
		case "class":
			pat = "[ab]/?"
		}
		var a, b []string
		if f.rel {
			a, se = cl.Glob(pat)
		} else {
			a, se = cl.Glob(f.t1 + "/" + pat)
		}
		b, oe = filepath.Glob(f.t2 + "/" + pat)
		for i := range a {
			a[i] = strings.TrimPrefix(f.norm(a[i]), "$ROOT/")
		}
		for i := range b {
			b[i] = strings.TrimPrefix(f.norm(b[i]), "$ROOT/")
		}
		sort.Strings(a)
		sort.Strings(b)
		sv, ov = strings.Join(a, ","), strings.Join(b, ",")
	case "Walk":
		var a, b []string
		w := cl.Walk(sp)
		for w.Step() {
			if w.Err() != nil {
				continue
			}
			rel := strings.TrimPrefix(strings.TrimPrefix(w.Path(), sp), "/")
			a = append(a, rel+"="+infoVal(w.Stat()))
		}
		filepath.Walk(op, func(p string, fi os.FileInfo, err error) error {
			if err == nil {
				b = append(b, strings.TrimPrefix(strings.TrimPrefix(p, op), "/")+"="+infoVal(fi))
			}
			return nil
		})
		sort.Strings(a)
		sort.Strings(b)
		sv, ov = strings.Join(a, ","), strings.Join(b, ",")
	case "RealPath":
		sv, se = cl.RealPath(sp)
		ov = path.Clean(op)
		sv, ov = f.norm(sv), f.norm(ov)
	case "StatVFS":
		var a *StatVFS
		a, se = cl.StatVFS(sp)
		var st syscall.Statfs_t
		oe = syscall.Statfs(op, &st)
		if se == nil && oe == nil {
			sv, ov = fmt.Sprint(a.Bsize, a.Namemax, a.Blocks), fmt.Sprint(uint64(st.Bsize), uint64(st.Namelen), st.Blocks)
		}
	default:
		panic("unknown op " + s.Op)
	}
	return se, sv, oe, ov
}

func runFsScenario(t testing.TB, tr *tracer, steps []fsStep, rel bool, src string, idx int) {
	t1, t2 := prepRoot(t, "fs1"), prepRoot(t, "fs2")
	tr.reset(kv{"kind": "fs", "rel": rel, "src": src, "i": idx, "n": len(steps)})
	so := srvOpts{kind: "server", quiet: true, alloc: idx%2 == 0}
	if rel {
		so.workDir = t1
	}
	sess := newSrvSession(t, tr, so)
	sess.s2c.onWrite = nil
	go func() { sess.srv.Serve(); sess.conn.Close(); close(sess.serveDone) }()
	cl, err := NewClientPipe(sess.s2c, pipeWriteCloser{p: sess.c2s})
	if err != nil {
		t.Fatal(err)
	}
	f := &fsPair{t1: t1, t2: t2, rel: rel, cl: cl}
	for n, s := range steps {
		se, sv, oe, ov := f.do(s)
		eq := treeSnap(t1) == treeSnap(t2)
		tr.emit("FsStep", kv{"n": n, "op": s.Op, "p": strs(s.P), "q": strs(s.Q), "k": s.K, "scat": errCat(se), "ocat": errCat(oe), "sval": sv, "oval": ov,
			"treeeq": eq, "mcat": s.Cat, "serr": errStr(se), "oerr": errStr(oe)})
		if !eq && s.Op == "Symlink" && se == nil && oe == nil {
			// (known finding) under a working directory the server stores a rewritten target text: restore the text package os
			// stored, so that the rest of the sequence is still compared
			lp := filepath.Join(t1, strings.Join(s.Q, "/"))
			os.Remove(lp)
			os.Symlink(linkText(s.K), lp)
			eq = treeSnap(t1) == treeSnap(t2)
		}
		if !eq {
			break // the trees have diverged: later steps would only repeat the difference
		}
	}
	cl.Close()
	sess.waitServe(5 * time.Second)
}

func genFsSteps(r *rand.Rand, n int) []fsStep {
	nm := []string{"a", "b", "c"}
	rp := func() []string {
		if r.Intn(3) == 0 {
			return []string{nm[r.Intn(3)], nm[r.Intn(3)]}
		}
		return []string{nm[r.Intn(3)]}
	}
	ops := []string{"Mkdir", "Mkdir", "Create", "Create", "Write", "Write", "OpenFile", "OpenFile", "OpenFile", "Symlink", "Remove", "RemoveDirectory", "Rename", "PosixRename", "Link", "Stat", "Lstat", "ReadLink",
		"Truncate", "Chmod", "Chtimes", "ReadDir", "MkdirAll", "RemoveAll", "Glob", "Walk", "RealPath", "StatVFS"}
	var out []fsStep
	for i := 0; i < n; i++ {
		s := fsStep{Op: ops[r.Intn(len(ops))], P: rp()}
		switch s.Op {
		case "Rename", "PosixRename", "Link":
			s.Q = rp()
		case "Symlink":
			s.K, s.Q, s.P = []string{"la", "lb", "lc"}[r.Intn(3)], rp(), nil
		case "OpenFile":
			s.K = []string{"r", "wt", "rwt", "wcx", "wa", "wc", "rwc", "wct"}[r.Intn(8)]
		case "Glob", "Walk":
			if r.Intn(2) == 0 {
				s.P = nil
			}
			if s.Op == "Glob" {
				s.K = []string{"", "wild", "class"}[r.Intn(3)]
			}
		}
		out = append(out, s)
	}
	return out
}

func TestVerif_FsDiff(t *testing.T) {
	tr := newTracer(t)
	var walks [][]fsStep
	loadScenarios(t, "VERIF_SCEN", &walks)
	for i, w := range walks {
		runFsScenario(t, tr, w, i%2 == 1, "tlc", i)
	}
	// fixed sequences for the composites whose interesting cases random walks rarely reach: Glob with meta characters in the
	// directory part over several directories, Walk / RemoveAll over nested trees and through links
	mk := func(op string, p ...string) fsStep { return fsStep{Op: op, P: p} }
	globTree := []fsStep{mk("Mkdir", "a"), mk("Mkdir", "b"), mk("Create", "c"), mk("Create", "a", "a"), mk("Create", "a", "b"), mk("Create", "b", "a"), mk("Mkdir", "b", "c"),
		{Op: "Symlink", K: "la", Q: []string{"a", "c"}}}
	for i, k := range []string{"wild", "class", "", "wild", "class"} {
		steps := append([]fsStep(nil), globTree...)
		steps = append(steps, fsStep{Op: "Glob", K: k}, fsStep{Op: "Glob", P: []string{"a"}}, fsStep{Op: "Glob", P: []string{"b"}, K: k}, mk("Walk"), mk("Walk", "a"), mk("ReadDir", "a"),
			mk("RemoveAll", "a", "c"), mk("RemoveAll", "b"), fsStep{Op: "Glob", K: k}, mk("RemoveAll", "a"), mk("Walk"))
		runFsScenario(t, tr, steps, i%2 == 1, "fixed", i)
	}
	// the listed path (or the directory part of a pattern) is ITSELF a symbolic link: to a directory, to a link to a directory,
	// to a file, dangling
	linkDirs := []fsStep{mk("Mkdir", "a"), mk("Create", "a", "a"), mk("Create", "a", "b"), mk("Mkdir", "a", "c"), {Op: "Symlink", K: "la", Q: []string{"b"}}, {Op: "Symlink", K: "lb", Q: []string{"c"}},
		mk("ReadDir", "b"), mk("ReadDir", "c"), {Op: "Glob", P: []string{"b"}, K: "wild"}, {Op: "Glob", P: []string{"c"}}, mk("Walk", "b"), mk("Stat", "b"), mk("Lstat", "b"),
		mk("Remove", "c"), {Op: "Symlink", K: "lc", Q: []string{"c"}}, mk("ReadDir", "c"), {Op: "Glob", P: []string{"c"}},
		mk("Remove", "c"), {Op: "Symlink", K: "la", Q: []string{"a", "a2"}}, mk("Remove", "a", "a"), {Op: "Symlink", K: "lb", Q: []string{"a", "a"}}, mk("ReadDir", "a", "a"), mk("ReadDir", "a", "b"), mk("ReadDir", "b", "c")}
	for i := 0; i < 2; i++ {
		runFsScenario(t, tr, linkDirs, i%2 == 1, "fixed-linkdir", i)
	}
	// every open-flag combination on a non-empty file, a missing name, a directory, a link to the file and a dangling link
	for i, k := range []string{"r", "wt", "rwt", "wcx", "wa", "wc", "rwc", "wct"} {
		of := func(p ...string) fsStep { return fsStep{Op: "OpenFile", K: k, P: p} }
		steps := []fsStep{mk("Create", "a"), mk("Write", "a"), mk("Mkdir", "b"), {Op: "Symlink", K: "la", Q: []string{"b", "a"}}, {Op: "Symlink", K: "lc", Q: []string{"b", "b"}},
			{Op: "Symlink", K: "la", Q: []string{"c"}}, of("a"), mk("Stat", "a"), mk("Write", "a"), of("c"), mk("Stat", "a"), of("b"), of("b", "c"), of("b", "b"), mk("Lstat", "b", "c"), mk("ReadDir", "b"), of("a", "a")}
		runFsScenario(t, tr, steps, i%2 == 1, "fixed-open", i)
	}
	r := vRand(51)
	n := 120
	if vThorough() {
		n = 3000
	}
	for i := 0; i < n; i++ {
		runFsScenario(t, tr, genFsSteps(r, 14), i%2 == 1, "gen", i)
	}
}
