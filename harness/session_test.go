//go:build verif

package sftp

// C11: sequential sessions (opens that succeed or fail, uses, repeated and bogus closes, use after close)
// ending at any point (clean EOF, EOF inside a packet, transport error), replayed on the real
// RequestServer (instrumented handler objects) and Server (descriptor table).
// Scenarios come from TLC (behaviours of Session.tla, spec/SessionScen.tla) and a seeded generator.

import (
	"fmt"
	"math/rand"
	"os"
	"path/filepath"
	"sort"
	"strings"
	"sync/atomic"
	"testing"
	"time"
)

type sessOp struct {
	Op string `json:"op"` // openok | openfail | use | close
	H  int    `json:"h"`  // model handle number (use/close/openok); 0 = bogus handle
}

type sessScenario struct {
	Ops []sessOp `json:"ops"`
	End string   `json:"end"` // eof | mid | err
	Src string   `json:"src"`
	// Inflight: one more OPEN is sent right before the connection ends and is still being handled
	// (held at the work.begin gate) when the server sees the end of the stream.
	Inflight bool `json:"inflight"`
}

func genSession(r *rand.Rand, maxOps int) sessScenario {
	sc := sessScenario{Src: "gen"}
	n := r.Intn(maxOps + 1)
	next := 1
	for i := 0; i < n; i++ {
		switch x := r.Intn(10); {
		case x < 3:
			sc.Ops = append(sc.Ops, sessOp{"openok", next})
			next++
		case x < 4:
			sc.Ops = append(sc.Ops, sessOp{"openfail", 0})
		case x < 7:
			sc.Ops = append(sc.Ops, sessOp{"use", r.Intn(next + 1)}) // may be 0 (bogus) or never issued (== next)
		default:
			sc.Ops = append(sc.Ops, sessOp{"close", r.Intn(next + 1)})
		}
	}
	sc.End = []string{"eof", "mid", "err"}[r.Intn(3)]
	sc.Inflight = r.Intn(3) == 0
	return sc
}

func treeDigest(root string) string {
	var parts []string
	filepath.Walk(root, func(p string, fi os.FileInfo, err error) error {
		if err != nil {
			return nil
		}
		s := fmt.Sprintf("%s|%v|%d|%d", strings.TrimPrefix(p, root), fi.Mode(), fi.Size(), fi.ModTime().UnixNano())
		if fi.Mode().IsRegular() {
			b, _ := os.ReadFile(p)
			s += "|" + hexs(b)
		}
		parts = append(parts, s)
		return nil
	})
	sort.Strings(parts)
	return strings.Join(parts, "\n")
}

func respOK(f wframe) bool {
	switch f.Typ {
	case tData, tName, tAttrs, tHandle, tExtReply:
		return true
	case tStatus:
		return f.Code == 0 || f.Code == 1
	}
	return false
}

func runSession(t testing.TB, tr *tracer, o srvOpts, sc sessScenario, salt int) {
	var root string
	if o.kind == "server" {
		root = prepRoot(t, "sroot")
		writeFixed(t, filepath.Join(root, "f1"), posData(300, 1))
		writeFixed(t, filepath.Join(root, "f2"), posData(300, 2))
		os.Mkdir(filepath.Join(root, "d"), 0o755)
		writeFixed(t, filepath.Join(root, "d", "x"), []byte("x"))
	}
	o.hopt = "opvlrk"
	tr.reset(kv{"kind": "session", "server": o.label(), "end": sc.End, "src": sc.Src, "ops": sc.Ops})
	s := newSrvSession(t, tr, o)
	if s.v != nil {
		s.v.addFile("/f1", posData(300, 1))
		s.v.addFile("/f2", posData(300, 2))
		s.v.addDir("/d")
		s.v.addFile("/d/x", []byte("x"))
		// in two sessions out of three some handler objects report an error from Close: the handle dies all the same
		if salt%3 != 0 {
			s.v.closeErrEvery = 2 + salt%2
		}
	}
	s.start()
	p := func(name string) string {
		if o.kind == "server" {
			return filepath.Join(root, name)
		}
		return "/" + name
	}
	if _, ok := s.call(fInit(3)); !ok {
		t.Fatalf("no VERSION")
	}
	type hinfo struct {
		str  string
		kind string
	}
	model := map[int]hinfo{} // model handle number -> real handle
	strID := map[string]int{}
	hid := func(str string) int { // handle string -> small int by first occurrence
		if id, ok := strID[str]; ok {
			return id
		}
		strID[str] = len(strID) + 1
		return strID[str]
	}
	calls := func() int64 {
		if s.v != nil {
			return atomic.LoadInt64(&s.v.calls)
		}
		return 0
	}
	id := uint32(100)
	nOpen := 0
	for i, op := range sc.Ops {
		id++
		switch op.Op {
		case "openok":
			var f wframe
			kind := []string{"get", "put", "rw", "dir"}[(salt+i)%4]
			nb := 0
			if s.v != nil {
				nb = s.v.nObjs()
			}
			switch kind {
			case "get":
				f, _ = s.call(fOpen(id, p("f1"), 1, wattrs{}))
			case "put":
				f, _ = s.call(fOpen(id, p(fmt.Sprintf("new%d", i)), 2|8, wattrs{}))
			case "rw":
				f, _ = s.call(fOpen(id, p("f2"), 3, wattrs{}))
			default:
				f, _ = s.call(fIDStr(tOpendir, id, p("d")))
			}
			if f.Typ != tHandle {
				t.Fatalf("scenario open failed unexpectedly: %+v", f)
			}
			model[op.H] = hinfo{f.Handle, kind}
			h := hid(f.Handle)
			if s.v != nil && s.v.nObjs() == nb+1 {
				s.v.lastObj().tag = h
			}
			nOpen++
			tr.emit("Op", kv{"op": "openok", "h": h, "handle": f.Handle, "kind": kind})
		case "openfail":
			nb := 0
			if s.v != nil {
				nb = s.v.nObjs()
			}
			var f wframe
			switch (salt + i) % 3 {
			case 0:
				f, _ = s.call(fOpen(id, p("missing"), 1, wattrs{}))
			case 1:
				f, _ = s.call(fIDStr(tOpendir, id, p("missing")))
			default:
				f, _ = s.call(fOpen(id, p("nodir/x"), 2|8, wattrs{}))
			}
			if f.Typ != tStatus || f.Code == 0 {
				t.Fatalf("scenario open should fail: %+v", f)
			}
			// the context handed to the handler of an open that failed is cancelled once the request is answered
			ctxnow := true
			if s.v != nil {
				s.v.mu.Lock()
				lc := s.v.lastCtx
				s.v.mu.Unlock()
				ctxnow = ctxDoneSoon(lc)
			}
			tr.emit("Op", kv{"op": "openfail", "touchedObj": s.v != nil && s.v.nObjs() != nb, "ctxnow": ctxnow})
		case "use", "close":
			hi, known := model[op.H]
			if !known {
				hi = hinfo{[]string{"999", "", "0", "x1", "18446744073709551616"}[(salt+i)%5], "get"}
			}
			before := calls()
			var dig string
			if o.kind == "server" {
				dig = treeDigest(root)
			}
			var f wframe
			if op.Op == "close" {
				f, _ = s.call(fClose(id, hi.str))
				objfail, ctxnow := false, true
				if s.v != nil {
					if ob := s.v.objByTag(hid(hi.str)); ob != nil {
						objfail = ob.closeFails()
						// the context handed to the open / directory-open handler is cancelled once its handle is closed
						ctxnow = ctxDoneSoon(ob.ctx)
					}
				}
				tr.emit("Op", kv{"op": "close", "h": hid(hi.str), "ok": f.Typ == tStatus && f.Code == 0, "code": int(f.Code), "objfail": objfail, "ctxnow": ctxnow})
				continue
			}
			variant := (salt + i) % 3
			switch {
			case variant == 0 && o.kind == "rs":
				f, _ = s.call(fIDStr(tFstat, id, hi.str))
			case hi.kind == "dir":
				f, _ = s.call(fIDStr(tReaddir, id, hi.str))
			case hi.kind == "put" || (hi.kind == "rw" && variant == 1):
				f, _ = s.call(fWrite(id, hi.str, uint64(10*i), []byte("stale-or-not")))
			default:
				f, _ = s.call(fRead(id, hi.str, uint64(i), 16))
			}
			touched := calls() != before
			if o.kind == "server" && !respOK(f) {
				touched = treeDigest(root) != dig
			}
			tr.emit("Op", kv{"op": "use", "h": hid(hi.str), "ok": respOK(f), "touched": touched, "typ": f.T(), "code": int(f.Code)})
		}
	}
	// optionally one more OPEN that is still in flight when the connection ends
	gateKey := ""
	if sc.Inflight {
		id++
		var fr []byte
		switch salt % 3 {
		case 0:
			fr = fOpen(id, p("f1"), 1, wattrs{})
		case 1:
			fr = fOpen(id, p("f2"), 3, wattrs{})
		default:
			fr = fIDStr(tOpendir, id, p("d"))
		}
		gateKey = "o:" + itoa(s.order+1)
		s.gate.hold(gateKey)
		tr.emit("Op", kv{"op": "inflightopen"})
		s.feed(fr, true)
		waitFor(2*time.Second, func() bool { return s.gate.isWaiting(gateKey) })
	}
	// the connection ends
	tr.emit("Op", kv{"op": "end", "kind": sc.End})
	switch sc.End {
	case "eof":
		s.c2s.CloseWrite(nil)
	case "mid":
		fr := fRead(9999, "1", 0, 10)
		s.feedRaw(fr[:4+(salt%(len(fr)-4))])
		s.c2s.CloseWrite(nil)
	default:
		s.c2s.CloseWrite(errInjected)
	}
	if gateKey != "" {
		// give a faulty Serve the time to run its end-of-session sweep while the open is still being handled
		time.Sleep(10 * time.Millisecond)
		s.gate.release(gateKey)
	}
	returned := s.waitServe(15 * time.Second)
	tr.emit("Op", kv{"op": "returned", "returned": returned})
	if s.v != nil {
		s.v.reportObjects()
	} else {
		fds := fdTargets(root)
		tr.emit("Leak", kv{"fds": len(fds), "handles": s.openHandles(), "which": strings.Join(fds, ",")})
	}
	s.conn.Close()
	waitFor(5*time.Second, s.finiSeen)
}

// runUseBehindClose: a READ (or WRITE) on a handle, sent right behind the CLOSE of that handle while the handler object's
// Close is still running: the handle is dead from the moment the CLOSE is being served - the request fails and never reaches
// the object. In terms of Session.tla: openok(h), close(h), use(h).
func runUseBehindClose(t testing.TB, tr *tracer, o srvOpts, write bool, round int) {
	o.hopt = "opvlrk"
	o.quiet = true
	tr.reset(kv{"kind": "session", "server": o.label(), "end": "eof", "src": "behind-close", "ops": []sessOp{}})
	s := newSrvSession(t, tr, o)
	s.v.addFile("/f1", posData(300, 1))
	s.start()
	if _, ok := s.call(fInit(3)); !ok {
		t.Fatalf("no VERSION")
	}
	pf := uint32(1)
	if write {
		pf = 2
	}
	f, _ := s.call(fOpen(101, "/f1", pf, wattrs{}))
	if f.Typ != tHandle {
		t.Fatalf("open failed: %+v", f)
	}
	ob := s.v.lastObj()
	ob.tag = 1
	tr.emit("Op", kv{"op": "openok", "h": 1, "handle": f.Handle, "kind": "get"})
	key := "close:" + itoa(ob.id)
	s.gate.hold(key)
	n0 := s.nResps()
	before := atomic.LoadInt64(&s.v.calls)
	s.feed(fClose(102, f.Handle), true)
	waitFor(2*time.Second, func() bool { return s.gate.isWaiting(key) })
	if write {
		s.feed(fWrite(103, f.Handle, 0, []byte("late")), true)
	} else {
		s.feed(fRead(103, f.Handle, 0, 16), true)
	}
	time.Sleep(20 * time.Millisecond) // the request is with a worker now
	s.gate.release(key)
	s.waitResps(n0+2, 10*time.Second)
	var cr, ur wframe
	for i := n0; i < s.nResps(); i++ {
		switch r := s.resp(i); r.ID {
		case 102:
			cr = r
		case 103:
			ur = r
		}
	}
	tr.emit("Op", kv{"op": "close", "h": 1, "ok": cr.Typ == tStatus && cr.Code == 0, "code": int(cr.Code), "objfail": false, "ctxnow": ctxDoneSoon(ob.ctx)})
	tr.emit("Op", kv{"op": "use", "h": 1, "ok": respOK(ur), "touched": atomic.LoadInt64(&s.v.calls) != before, "typ": ur.T(), "code": int(ur.Code)})
	tr.emit("Op", kv{"op": "end", "kind": "eof"})
	s.c2s.CloseWrite(nil)
	returned := s.waitServe(15 * time.Second)
	tr.emit("Op", kv{"op": "returned", "returned": returned})
	s.v.reportObjects()
	s.conn.Close()
	waitFor(5*time.Second, s.finiSeen)
}

func TestVerif_Session(t *testing.T) {
	tr := newTracer(t)
	for round := 0; round < 6; round++ {
		runUseBehindClose(t, tr, srvOpts{kind: "rs", alloc: round%2 == 1}, round%3 == 2, round)
	}
	var scs []sessScenario
	loadScenarios(t, "VERIF_SCEN", &scs)
	r := vRand(11)
	nGen, maxOps := 60, 14
	if vThorough() {
		nGen, maxOps = 1500, 30
	}
	for i := 0; i < nGen; i++ {
		scs = append(scs, genSession(r, maxOps))
	}
	for i, sc := range scs {
		for j, o := range serverMatrix() {
			if !vThorough() && (i+j)%2 != 0 {
				continue
			}
			o.quiet = true
			o.softClose = (i+j)%3 == 0
			if sc.Src == "tlc" {
				sc.Inflight = (i+j)%4 == 0
			}
			runSession(t, tr, o, sc, int(vSeed())+i)
		}
	}
}
