//go:build verif

package sftp

// Common harness layer for the TLA+-bound conformance checks.
// Compiled INTO package sftp via `go test -overlay` (nothing is written to /repo).
//
//   tracer   – one mutex, one sequence counter, NDJSON lines (read by TLC with ndJsonDeserialize)
//   bpipe    – unbounded in-memory pipe (Write never blocks) with fault injection
//   codec    – an independent SFTPv3 encoder/decoder (does not use the package's codec)
//   hooks    – dispatcher for the build-tag guarded vhook() call sites

import (
	"bufio"
	"encoding/binary"
	"encoding/json"
	"errors"
	"fmt"
	"io"
	"math/rand"
	"os"
	"runtime"
	"sort"
	"strconv"
	"strings"
	"sync"
	"testing"
	"time"
)

// ---------------------------------------------------------------- environment

func envInt(name string, def int) int {
	if v := os.Getenv(name); v != "" {
		if n, err := strconv.Atoi(v); err == nil {
			return n
		}
	}
	return def
}

func vSeed() int64 { return int64(envInt("VERIF_SEED", 1)) }
func vTier() string {
	t := os.Getenv("VERIF_TIER")
	if t == "" {
		t = "quick"
	}
	return t
}
func vThorough() bool             { return vTier() == "thorough" }
func vRand(salt int64) *rand.Rand { return rand.New(rand.NewSource(vSeed()*1000003 + salt)) }

// ---------------------------------------------------------------- tracer

type kv map[string]any

type tracer struct {
	mu   sync.Mutex
	f    *os.File
	w    *bufio.Writer
	n    int // events written
	t    int // trace number (incremented by reset)
	seq  int
	keep [][]byte // optional in-memory copy of the current trace (for replays)
}

func newTracer(t testing.TB) *tracer {
	path := os.Getenv("VERIF_OUT")
	if path == "" {
		path = t.TempDir() + "/trace.ndjson"
	}
	f, err := os.Create(path)
	if err != nil {
		t.Fatalf("tracer: %v", err)
	}
	tr := &tracer{f: f, w: bufio.NewWriterSize(f, 1<<20)}
	t.Cleanup(func() { tr.close() })
	return tr
}

func (tr *tracer) close() {
	tr.mu.Lock()
	defer tr.mu.Unlock()
	if tr.w != nil {
		tr.w.Flush()
		tr.f.Close()
		tr.w = nil
	}
}

func (tr *tracer) flush() {
	tr.mu.Lock()
	defer tr.mu.Unlock()
	if tr.w != nil {
		tr.w.Flush()
	}
}

// emit writes one event. Must be called at the linearization point of what it reports
// (under the lock protecting the state, or by the single goroutine observing it).
func (tr *tracer) emit(ev string, fields kv) {
	tr.mu.Lock()
	defer tr.mu.Unlock()
	tr.emitLocked(ev, fields)
}

func (tr *tracer) emitLocked(ev string, fields kv) {
	if tr.w == nil {
		return
	}
	m := kv{"ev": ev, "t": tr.t, "seq": tr.seq}
	for k, v := range fields {
		m[k] = v
	}
	tr.seq++
	tr.n++
	b, err := json.Marshal(m)
	if err != nil {
		panic(err)
	}
	if bytesContainsNull(b) {
		// TLC's Json module cannot read null: nil slices become [], other nils ""
		var g any
		json.Unmarshal(b, &g)
		b, _ = json.Marshal(denull(g, ""))
	}
	tr.w.Write(b)
	tr.w.WriteByte('\n')
}

func bytesContainsNull(b []byte) bool { return strings.Contains(string(b), "null") }

// nil-ness of slices is lost in generic decoding; lists in our events have plural or list-like keys
var listKeys = map[string]bool{"prog": true, "rel": true, "handles": true, "data": true, "names": true, "ops": true, "got": true, "want": true}

func denull(v any, key string) any {
	switch x := v.(type) {
	case nil:
		if listKeys[key] {
			return []any{}
		}
		return ""
	case map[string]any:
		for k, e := range x {
			x[k] = denull(e, k)
		}
		return x
	case []any:
		for i, e := range x {
			x[i] = denull(e, "")
		}
		return x
	}
	return v
}

// reset starts a new trace inside the same file.
func (tr *tracer) reset(fields kv) {
	tr.mu.Lock()
	defer tr.mu.Unlock()
	tr.t++
	tr.seq = 0
	tr.emitLocked("Reset", fields)
}

// ---------------------------------------------------------------- unbounded pipe

var errInjected = errors.New("verif: injected transport error")

// bpipe is a unidirectional in-memory byte pipe. Write never blocks.
// Faults: cutAfter (reader sees EOF/err after N bytes in total), failWriteAt (the k-th Write fails).
type bpipe struct {
	mu         sync.Mutex
	cond       *sync.Cond
	buf        []byte
	rclosed    bool  // reader side closed: writes fail
	wclosed    bool  // writer side closed: reads hit EOF after draining
	werr       error // error reads return after draining (instead of EOF)
	nread      int
	nwrit      int
	writes     int
	onWrite    func(p []byte) // called under mu at each Write (linearization point of "bytes left the writer")
	afterWrite func(p []byte) // called after the Write completed, without the lock (used to stretch the gap between two writes)
	failAt     int            // 1-based index of the Write call that fails (0 = never)
	failErr    error          // the error failing writes return (nil: errInjected); some transports report io.EOF
	cut        int            // reader is cut after this many bytes (-1 = never)
	cutErr     error          // error to report at the cut (nil = io.EOF)
	cutHit     bool           // a Read has reported the cut
}

func newBpipe() *bpipe {
	p := &bpipe{cut: -1}
	p.cond = sync.NewCond(&p.mu)
	return p
}

func (p *bpipe) Write(b []byte) (int, error) {
	n, err := p.write(b)
	if err == nil && p.afterWrite != nil {
		p.afterWrite(b)
	}
	return n, err
}

func (p *bpipe) write(b []byte) (int, error) {
	p.mu.Lock()
	defer p.mu.Unlock()
	p.writes++
	if p.rclosed || p.wclosed {
		return 0, io.ErrClosedPipe
	}
	if p.failAt != 0 && p.writes >= p.failAt {
		if p.failErr != nil {
			return 0, p.failErr
		}
		return 0, errInjected
	}
	if p.onWrite != nil {
		p.onWrite(b)
	}
	p.buf = append(p.buf, b...)
	p.nwrit += len(b)
	p.cond.Broadcast()
	return len(b), nil
}

func (p *bpipe) Read(b []byte) (int, error) {
	p.mu.Lock()
	defer p.mu.Unlock()
	for {
		if p.rclosed {
			return 0, io.ErrClosedPipe
		}
		if p.cut >= 0 && p.nread >= p.cut {
			p.cutHit = true
			if p.cutErr != nil {
				return 0, p.cutErr
			}
			return 0, io.EOF
		}
		if len(p.buf) > 0 {
			n := len(b)
			if n > len(p.buf) {
				n = len(p.buf)
			}
			if p.cut >= 0 && p.nread+n > p.cut {
				n = p.cut - p.nread
			}
			copy(b, p.buf[:n])
			p.buf = p.buf[n:]
			p.nread += n
			return n, nil
		}
		if p.wclosed {
			if p.werr != nil {
				return 0, p.werr
			}
			return 0, io.EOF
		}
		p.cond.Wait()
	}
}

// CloseWrite: no more data; reader gets EOF (or err) after draining.
func (p *bpipe) CloseWrite(err error) {
	p.mu.Lock()
	p.wclosed = true
	p.werr = err
	p.cond.Broadcast()
	p.mu.Unlock()
}

// CloseRead: reader gone; pending and future reads/writes fail.
func (p *bpipe) CloseRead() {
	p.mu.Lock()
	p.rclosed = true
	p.cond.Broadcast()
	p.mu.Unlock()
}

// pending: bytes written and not yet read
func (p *bpipe) pending() int {
	p.mu.Lock()
	defer p.mu.Unlock()
	return len(p.buf)
}

func (p *bpipe) wasCut() bool {
	p.mu.Lock()
	defer p.mu.Unlock()
	return p.cutHit
}

func (p *bpipe) setCut(n int, err error) {
	p.mu.Lock()
	p.cut = n
	p.cutErr = err
	p.cond.Broadcast()
	p.mu.Unlock()
}

// duplex is what a Server / RequestServer / Client gets as its connection.
type duplex struct {
	r       *bpipe // we read from here
	w       *bpipe // we write to here
	closed  chan struct{}
	once    sync.Once
	onClose func()
}

func newDuplex(r, w *bpipe) *duplex { return &duplex{r: r, w: w, closed: make(chan struct{})} }

func (d *duplex) Read(b []byte) (int, error)  { return d.r.Read(b) }
func (d *duplex) Write(b []byte) (int, error) { return d.w.Write(b) }
func (d *duplex) Close() error {
	d.once.Do(func() {
		close(d.closed)
		d.r.CloseRead()
		d.w.CloseWrite(nil)
		if d.onClose != nil {
			d.onClose()
		}
	})
	return nil
}

// writeCloser adapts a bpipe for NewClientPipe's wr argument.
type pipeWriteCloser struct {
	p  *bpipe
	rd *bpipe // the read side is also shut down on Close so that recv terminates (like an ssh channel)
}

func (w pipeWriteCloser) Write(b []byte) (int, error) { return w.p.Write(b) }
func (w pipeWriteCloser) Close() error {
	w.p.CloseWrite(nil)
	if w.rd != nil {
		w.rd.CloseWrite(nil)
	}
	return nil
}

// halfOpenWriter is the client->server direction of a link whose Close does nothing (a half-open connection, a
// transport with a no-op Close): writes keep succeeding after the client has given the connection up.
type halfOpenWriter struct{ p *bpipe }

func (w halfOpenWriter) Write(b []byte) (int, error) { return w.p.Write(b) }
func (w halfOpenWriter) Close() error                { return nil }

// ---------------------------------------------------------------- independent codec

const (
	tInit     = 1
	tVersion  = 2
	tOpen     = 3
	tClose    = 4
	tRead     = 5
	tWrite    = 6
	tLstat    = 7
	tFstat    = 8
	tSetstat  = 9
	tFsetstat = 10
	tOpendir  = 11
	tReaddir  = 12
	tRemove   = 13
	tMkdir    = 14
	tRmdir    = 15
	tRealpath = 16
	tStat     = 17
	tRename   = 18
	tReadlink = 19
	tSymlink  = 20
	tStatus   = 101
	tHandle   = 102
	tData     = 103
	tName     = 104
	tAttrs    = 105
	tExtended = 200
	tExtReply = 201
)

var typNames = map[byte]string{
	1: "INIT", 2: "VERSION", 3: "OPEN", 4: "CLOSE", 5: "READ", 6: "WRITE", 7: "LSTAT", 8: "FSTAT", 9: "SETSTAT",
	10: "FSETSTAT", 11: "OPENDIR", 12: "READDIR", 13: "REMOVE", 14: "MKDIR", 15: "RMDIR", 16: "REALPATH", 17: "STAT",
	18: "RENAME", 19: "READLINK", 20: "SYMLINK", 101: "STATUS", 102: "HANDLE", 103: "DATA", 104: "NAME", 105: "ATTRS",
	200: "EXTENDED", 201: "EXTENDED_REPLY",
}

func typName(t byte) string {
	if s, ok := typNames[t]; ok {
		return s
	}
	return "T" + strconv.Itoa(int(t))
}

type wb struct{ b []byte }

func (w *wb) u8(v byte) *wb      { w.b = append(w.b, v); return w }
func (w *wb) u32(v uint32) *wb   { w.b = binary.BigEndian.AppendUint32(w.b, v); return w }
func (w *wb) u64(v uint64) *wb   { w.b = binary.BigEndian.AppendUint64(w.b, v); return w }
func (w *wb) str(s string) *wb   { w.u32(uint32(len(s))); w.b = append(w.b, s...); return w }
func (w *wb) raw(p []byte) *wb   { w.b = append(w.b, p...); return w }
func (w *wb) bytes(p []byte) *wb { w.u32(uint32(len(p))); w.b = append(w.b, p...); return w }

// mkFrame: length prefix + type + body
func mkFrame(typ byte, body []byte) []byte {
	out := make([]byte, 0, 5+len(body))
	out = binary.BigEndian.AppendUint32(out, uint32(1+len(body)))
	out = append(out, typ)
	return append(out, body...)
}

type wattrs struct {
	Flags        uint32
	Size         uint64
	UID, GID     uint32
	Perm         uint32
	Atime, Mtime uint32
	Ext          [][2]string
}

func (w *wb) attrs(a wattrs) *wb {
	w.u32(a.Flags)
	if a.Flags&1 != 0 {
		w.u64(a.Size)
	}
	if a.Flags&2 != 0 {
		w.u32(a.UID).u32(a.GID)
	}
	if a.Flags&4 != 0 {
		w.u32(a.Perm)
	}
	if a.Flags&8 != 0 {
		w.u32(a.Atime).u32(a.Mtime)
	}
	if a.Flags&0x80000000 != 0 {
		w.u32(uint32(len(a.Ext)))
		for _, e := range a.Ext {
			w.str(e[0]).str(e[1])
		}
	}
	return w
}

func fInit(version uint32) []byte { return mkFrame(tInit, new(wb).u32(version).b) }
func fIDStr(typ byte, id uint32, s string) []byte {
	return mkFrame(typ, new(wb).u32(id).str(s).b)
}
func fOpen(id uint32, path string, pflags uint32, a wattrs) []byte {
	return mkFrame(tOpen, new(wb).u32(id).str(path).u32(pflags).attrs(a).b)
}
func fClose(id uint32, h string) []byte { return fIDStr(tClose, id, h) }
func fRead(id uint32, h string, off uint64, n uint32) []byte {
	return mkFrame(tRead, new(wb).u32(id).str(h).u64(off).u32(n).b)
}
func fWrite(id uint32, h string, off uint64, data []byte) []byte {
	return mkFrame(tWrite, new(wb).u32(id).str(h).u64(off).bytes(data).b)
}
func fSetstat(id uint32, path string, a wattrs) []byte {
	return mkFrame(tSetstat, new(wb).u32(id).str(path).attrs(a).b)
}
func fFsetstat(id uint32, h string, a wattrs) []byte {
	return mkFrame(tFsetstat, new(wb).u32(id).str(h).attrs(a).b)
}
func fMkdir(id uint32, path string) []byte {
	return mkFrame(tMkdir, new(wb).u32(id).str(path).attrs(wattrs{}).b)
}
func fTwo(typ byte, id uint32, a, b string) []byte {
	return mkFrame(typ, new(wb).u32(id).str(a).str(b).b)
}
func fExt(id uint32, name string, strs ...string) []byte {
	w := new(wb).u32(id).str(name)
	for _, s := range strs {
		w.str(s)
	}
	return mkFrame(tExtended, w.b)
}

// responses (used by the scripted peer)
func fStatus(id, code uint32, msg string) []byte {
	return mkFrame(tStatus, new(wb).u32(id).u32(code).str(msg).str("").b)
}
func fHandle(id uint32, h string) []byte { return fIDStr(tHandle, id, h) }
func fData(id uint32, data []byte) []byte {
	return mkFrame(tData, new(wb).u32(id).bytes(data).b)
}
func fAttrs(id uint32, a wattrs) []byte { return mkFrame(tAttrs, new(wb).u32(id).attrs(a).b) }

type wname struct {
	Name, Long string
	A          wattrs
}

func fName(id uint32, names []wname) []byte {
	w := new(wb).u32(id).u32(uint32(len(names)))
	for _, n := range names {
		w.str(n.Name).str(n.Long).attrs(n.A)
	}
	return mkFrame(tName, w.b)
}
func fVersion(v uint32, ext ...[2]string) []byte {
	w := new(wb).u32(v)
	for _, e := range ext {
		w.str(e[0]).str(e[1])
	}
	return mkFrame(tVersion, w.b)
}

// ---- reader

type rb struct {
	b   []byte
	bad bool
}

func (r *rb) u8() byte {
	if len(r.b) < 1 {
		r.bad = true
		return 0
	}
	v := r.b[0]
	r.b = r.b[1:]
	return v
}
func (r *rb) u32() uint32 {
	if len(r.b) < 4 {
		r.bad = true
		r.b = nil
		return 0
	}
	v := binary.BigEndian.Uint32(r.b)
	r.b = r.b[4:]
	return v
}
func (r *rb) u64() uint64 {
	if len(r.b) < 8 {
		r.bad = true
		r.b = nil
		return 0
	}
	v := binary.BigEndian.Uint64(r.b)
	r.b = r.b[8:]
	return v
}
func (r *rb) str() string {
	n := r.u32()
	if r.bad || uint64(n) > uint64(len(r.b)) {
		r.bad = true
		r.b = nil
		return ""
	}
	s := string(r.b[:n])
	r.b = r.b[n:]
	return s
}
func (r *rb) attrs() wattrs {
	var a wattrs
	a.Flags = r.u32()
	if a.Flags&1 != 0 {
		a.Size = r.u64()
	}
	if a.Flags&2 != 0 {
		a.UID = r.u32()
		a.GID = r.u32()
	}
	if a.Flags&4 != 0 {
		a.Perm = r.u32()
	}
	if a.Flags&8 != 0 {
		a.Atime = r.u32()
		a.Mtime = r.u32()
	}
	if a.Flags&0x80000000 != 0 {
		n := r.u32()
		for i := uint32(0); i < n && !r.bad; i++ {
			a.Ext = append(a.Ext, [2]string{r.str(), r.str()})
		}
	}
	return a
}

// wframe is a decoded frame (request or response), by the independent codec.
type wframe struct {
	Typ byte
	ID  uint32
	Raw []byte // body after the type byte
	Bad bool   // body did not parse for its type
	// responses
	Code   uint32
	Msg    string
	Handle string
	Data   []byte
	Names  []wname
	A      wattrs
	Ver    uint32
	Exts   [][2]string
	// requests
	Path, Path2 string
	Pflags      uint32
	Off         uint64
	Len         uint32
	ExtName     string
}

func (f wframe) T() string { return typName(f.Typ) }

// readFrame reads one length-prefixed frame.
func readFrame(r io.Reader) (wframe, error) {
	var hdr [4]byte
	if _, err := io.ReadFull(r, hdr[:]); err != nil {
		return wframe{}, err
	}
	n := binary.BigEndian.Uint32(hdr[:])
	if n == 0 || n > 64<<20 {
		return wframe{}, fmt.Errorf("verif: bad frame length %d", n)
	}
	body := make([]byte, n)
	if _, err := io.ReadFull(r, body); err != nil {
		if err == io.EOF {
			err = io.ErrUnexpectedEOF
		}
		return wframe{}, err
	}
	return parseFrame(body[0], body[1:]), nil
}

func parseFrame(typ byte, body []byte) wframe {
	f := wframe{Typ: typ, Raw: body}
	r := &rb{b: body}
	switch typ {
	case tInit, tVersion:
		f.Ver = r.u32()
		for len(r.b) > 0 && !r.bad {
			f.Exts = append(f.Exts, [2]string{r.str(), r.str()})
		}
	case tStatus:
		f.ID = r.u32()
		f.Code = r.u32()
		f.Msg = r.str()
		r.str()
	case tHandle:
		f.ID = r.u32()
		f.Handle = r.str()
	case tData:
		f.ID = r.u32()
		f.Data = []byte(r.str())
	case tName:
		f.ID = r.u32()
		n := r.u32()
		for i := uint32(0); i < n && !r.bad; i++ {
			f.Names = append(f.Names, wname{r.str(), r.str(), r.attrs()})
		}
	case tAttrs:
		f.ID = r.u32()
		f.A = r.attrs()
	case tExtReply:
		f.ID = r.u32()
		f.Data = r.b
		r.b = nil
	case tOpen:
		f.ID = r.u32()
		f.Path = r.str()
		f.Pflags = r.u32()
		f.A = r.attrs()
	case tClose, tFstat, tReaddir:
		f.ID = r.u32()
		f.Handle = r.str()
	case tRead:
		f.ID = r.u32()
		f.Handle = r.str()
		f.Off = r.u64()
		f.Len = r.u32()
	case tWrite:
		f.ID = r.u32()
		f.Handle = r.str()
		f.Off = r.u64()
		f.Data = []byte(r.str())
	case tLstat, tStat, tOpendir, tRemove, tRmdir, tRealpath, tReadlink:
		f.ID = r.u32()
		f.Path = r.str()
	case tMkdir, tSetstat:
		f.ID = r.u32()
		f.Path = r.str()
		f.A = r.attrs()
	case tFsetstat:
		f.ID = r.u32()
		f.Handle = r.str()
		f.A = r.attrs()
	case tRename, tSymlink:
		f.ID = r.u32()
		f.Path = r.str()
		f.Path2 = r.str()
	case tExtended:
		f.ID = r.u32()
		f.ExtName = r.str()
		switch f.ExtName {
		case "statvfs@openssh.com":
			f.Path = r.str()
		case "posix-rename@openssh.com", "hardlink@openssh.com":
			f.Path = r.str()
			f.Path2 = r.str()
		case "fsync@openssh.com":
			f.Handle = r.str()
		default:
			r.b = nil
		}
	default:
		f.ID = r.u32()
	}
	f.Bad = r.bad
	return f
}

// ---------------------------------------------------------------- hooks

type hookFn func(point string, a, b uint64)

var hookMu sync.Mutex

// installHook sets the package hook for the duration of a test.
func installHook(t testing.TB, fn hookFn) {
	hookMu.Lock()
	verifHook = fn
	hookMu.Unlock()
	t.Cleanup(func() {
		hookMu.Lock()
		verifHook = nil
		hookMu.Unlock()
	})
}

// ---------------------------------------------------------------- goroutine accounting

// sftpGoroutines returns the stacks of goroutines that have a frame of this package's
// non-test code (file name not ending in _test.go) – i.e. goroutines "started by the package".
func sftpGoroutines() []string {
	buf := make([]byte, 1<<22)
	n := runtime.Stack(buf, true)
	var out []string
	for _, g := range strings.Split(string(buf[:n]), "\n\n") {
		if !strings.Contains(g, "github.com/pkg/sftp.") {
			continue
		}
		// keep only goroutines with at least one frame in a non-test file of the package
		pkgFrame := false
		lines := strings.Split(g, "\n")
		for i := 0; i+1 < len(lines); i++ {
			if strings.HasPrefix(lines[i], "github.com/pkg/sftp.") || strings.HasPrefix(lines[i], "created by github.com/pkg/sftp.") {
				loc := strings.TrimSpace(lines[i+1])
				if strings.Contains(loc, ".go:") && !strings.Contains(loc, "_test.go") {
					pkgFrame = true
				}
			}
		}
		// the calling test goroutine itself runs harness code; exclude goroutines whose
		// top-level function is a test function of the harness
		if pkgFrame && !strings.Contains(g, "testing.tRunner") {
			out = append(out, g)
		}
	}
	return out
}

// waitNoSftpGoroutines polls until no package goroutine is left, or the deadline passes.
func waitNoSftpGoroutines(d time.Duration) []string {
	deadline := time.Now().Add(d)
	for {
		gs := sftpGoroutines()
		if len(gs) == 0 || time.Now().After(deadline) {
			return gs
		}
		time.Sleep(2 * time.Millisecond)
	}
}

func openFDs() int {
	ents, err := os.ReadDir("/proc/self/fd")
	if err != nil {
		return -1
	}
	return len(ents)
}

// fdTargets lists what the open descriptors point at (for leak diagnosis).
func fdTargets(prefix string) []string {
	ents, _ := os.ReadDir("/proc/self/fd")
	var out []string
	for _, e := range ents {
		if l, err := os.Readlink("/proc/self/fd/" + e.Name()); err == nil && strings.HasPrefix(l, prefix) {
			out = append(out, l)
		}
	}
	sort.Strings(out)
	return out
}

// waitFor polls cond until true or timeout; returns whether it became true.
func waitFor(d time.Duration, cond func() bool) bool {
	deadline := time.Now().Add(d)
	for {
		if cond() {
			return true
		}
		if time.Now().After(deadline) {
			return false
		}
		time.Sleep(200 * time.Microsecond)
	}
}

func hexs(b []byte) string { return fmt.Sprintf("%x", b) }

// ints converts bytes to a JSON-friendly slice of small ints (TLC reads them as a sequence of integers).
func ints(b []byte) []int {
	out := make([]int, len(b))
	for i, c := range b {
		out[i] = int(c)
	}
	return out
}
