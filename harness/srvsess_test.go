//go:build verif

package sftp

// A server session under the harness: a real Server or RequestServer on in-memory pipes,
// every request fed and every response frame written is logged at its linearization point,
// hook events (work.begin gate, pm.*, alloc.*) are routed into the same trace.

import (
	"encoding/json"
	"fmt"
	"os"
	"path/filepath"
	"sync"
	"testing"
	"time"
)

type srvOpts struct {
	kind          string // "server" | "rs"
	alloc         bool
	softClose     bool // conn.Close() does not abort a blocked Read (two one-way pipes, like stdin/stdout)
	readOnly      bool
	root          string // os server: directory served (requests use absolute paths below it)
	workDir       string // os server: WithServerWorkingDirectory
	hopt          string // rs: optional handler interfaces (see vfs.handlers)
	startDir      string // rs: WithStartDirectory
	maxTx         uint32
	quiet         bool // do not log hook events (only wire events)
	quietHandlers bool // do not log handler-level events either (final object report only)
}

func (o srvOpts) label() string {
	s := o.kind
	if o.alloc {
		s += "+alloc"
	}
	return s
}

type srvSession struct {
	t    testing.TB
	o    srvOpts
	tr   *tracer
	c2s  *bpipe
	s2c  *bpipe
	conn *softDuplex
	v    *vfs
	gate *gateCtl
	srv  *Server
	rs   *RequestServer

	serveDone chan struct{}
	serveErr  error

	mu      sync.Mutex
	cond    *sync.Cond
	rbuf    []byte
	resps   []wframe
	out     []byte // every byte the server wrote
	order   int    // orders fed so far
	reqs    []wframe
	ready   map[int]bool // pm.ready seen for order
	began   map[int]bool // work.begin seen for order
	barrier int          // last order that entered the barrier
	fini    bool
	pages   map[uint64]int
}

// softDuplex is a duplex whose Close may leave the read side open (softClose).
type softDuplex struct {
	*duplex
	soft bool
}

func (d *softDuplex) Close() error {
	if !d.soft {
		return d.duplex.Close()
	}
	d.once.Do(func() {
		close(d.closed)
		d.w.CloseWrite(nil)
		if d.onClose != nil {
			d.onClose()
		}
	})
	return nil
}

func newSrvSession(t testing.TB, tr *tracer, o srvOpts) *srvSession {
	s := &srvSession{t: t, o: o, tr: tr, c2s: newBpipe(), s2c: newBpipe(), gate: newGateCtl(),
		serveDone: make(chan struct{}), ready: map[int]bool{}, began: map[int]bool{}, pages: map[uint64]int{}}
	s.cond = sync.NewCond(&s.mu)
	s.conn = &softDuplex{duplex: newDuplex(s.c2s, s.s2c), soft: o.softClose}
	s.conn.onClose = func() { tr.emit("ConnClose", nil) }
	s.s2c.onWrite = s.onServerWrite
	switch o.kind {
	case "server":
		var opts []ServerOption
		if o.alloc {
			opts = append(opts, WithAllocator())
		}
		if o.readOnly {
			opts = append(opts, ReadOnly())
		}
		if o.workDir != "" {
			opts = append(opts, WithServerWorkingDirectory(o.workDir))
		}
		if o.maxTx != 0 {
			opts = append(opts, WithMaxTxPacket(o.maxTx))
		}
		srv, err := NewServer(s.conn, opts...)
		if err != nil {
			t.Fatalf("NewServer: %v", err)
		}
		s.srv = srv
	case "rs":
		s.v = newVfs(tr, s.gate)
		s.v.quiet = o.quietHandlers
		var opts []RequestServerOption
		if o.alloc {
			opts = append(opts, WithRSAllocator())
		}
		if o.startDir != "" {
			opts = append(opts, WithStartDirectory(o.startDir))
		}
		if o.maxTx != 0 {
			opts = append(opts, WithRSMaxTxPacket(o.maxTx))
		}
		s.rs = NewRequestServer(s.conn, s.v.handlers(o.hopt), opts...)
	default:
		t.Fatalf("bad kind %q", o.kind)
	}
	return s
}

// hook receives the vhook() events of the package for this session.
func (s *srvSession) hook(point string, a, b uint64) {
	switch point {
	case "work.begin":
		o := int(a)
		s.mu.Lock()
		s.began[o] = true
		s.cond.Broadcast()
		s.mu.Unlock()
		if !s.o.quiet {
			s.tr.emit("WorkBegin", kv{"o": o})
		}
		s.gate.pass("o:" + itoa(o))
	case "pm.ready":
		if !s.o.quiet {
			s.tr.emit("Ready", kv{"o": int(a)})
		}
		s.mu.Lock()
		s.ready[int(a)] = true
		s.cond.Broadcast()
		s.mu.Unlock()
	case "pm.send":
		if !s.o.quiet {
			s.tr.emit("PmSend", kv{"o": int(a)})
		}
	case "pm.barrier.enter":
		s.mu.Lock()
		s.barrier = int(a)
		s.cond.Broadcast()
		s.mu.Unlock()
		if !s.o.quiet {
			s.tr.emit("BarrierEnter", kv{"o": int(a)})
		}
	case "pm.barrier.pass":
		if !s.o.quiet {
			s.tr.emit("BarrierPass", kv{"o": int(a)})
		}
	case "pm.fini":
		s.tr.emit("PmFini", kv{"nin": int(a), "nout": int(b)})
		s.mu.Lock()
		s.fini = true
		s.cond.Broadcast()
		s.mu.Unlock()
	case "alloc.get":
		s.mu.Lock()
		id, ok := s.pages[b]
		if !ok {
			id = len(s.pages) + 1
			s.pages[b] = id
		}
		s.mu.Unlock()
		if !s.o.quiet {
			s.tr.emit("AllocGet", kv{"o": int(a), "page": id})
		}
	case "alloc.release":
		if !s.o.quiet {
			s.tr.emit("AllocRel", kv{"o": int(a), "n": int(b)})
		}
	case "alloc.free":
		if !s.o.quiet {
			s.tr.emit("AllocFree", nil)
		}
	}
}

func (s *srvSession) start() {
	installHook(s.t, s.hook)
	go func() {
		var err error
		if s.srv != nil {
			err = s.srv.Serve()
		} else {
			err = s.rs.Serve()
		}
		s.mu.Lock()
		s.serveErr = err
		s.mu.Unlock()
		s.tr.emit("ServeRet", kv{"err": errStr(err)})
		close(s.serveDone)
	}()
}

// onServerWrite runs under the s2c pipe lock: the linearization point of "bytes left the server".
func (s *srvSession) onServerWrite(p []byte) {
	s.mu.Lock()
	s.out = append(s.out, p...)
	s.rbuf = append(s.rbuf, p...)
	for len(s.rbuf) >= 4 {
		n := int(uint32(s.rbuf[0])<<24 | uint32(s.rbuf[1])<<16 | uint32(s.rbuf[2])<<8 | uint32(s.rbuf[3]))
		if n == 0 || len(s.rbuf) < 4+n {
			break
		}
		f := parseFrame(s.rbuf[4], append([]byte(nil), s.rbuf[5:4+n]...))
		s.rbuf = s.rbuf[4+n:]
		s.resps = append(s.resps, f)
		sig := -1
		if f.Typ == tData && len(f.Data) > 0 {
			sig = int(f.Data[0])
		}
		s.tr.emit("Resp", kv{"id": int(f.ID & 0x7fffffff), "typ": f.T(), "code": int(f.Code), "bad": f.Bad, "sig": sig,
			"n": len(f.Data), "names": len(f.Names), "handle": f.Handle})
	}
	s.cond.Broadcast()
	s.mu.Unlock()
}

// feed writes one request frame; it logs the Req event first (so that it precedes every server-side event about it).
func (s *srvSession) feed(frame []byte, wf bool) int {
	f := parseFrame(frame[4], frame[5:])
	s.mu.Lock()
	s.order++
	o := s.order
	s.reqs = append(s.reqs, f)
	s.mu.Unlock()
	s.tr.emit("Req", kv{"o": o, "id": int(f.ID & 0x7fffffff), "typ": f.T(), "h": f.Handle, "wf": wf})
	s.c2s.Write(frame)
	return o
}

// feedRaw writes bytes that are not (necessarily) a frame; no Req event.
func (s *srvSession) feedRaw(b []byte) { s.c2s.Write(b) }

func (s *srvSession) nResps() int {
	s.mu.Lock()
	defer s.mu.Unlock()
	return len(s.resps)
}

func (s *srvSession) waitResps(n int, d time.Duration) bool {
	return waitFor(d, func() bool { return s.nResps() >= n })
}

func (s *srvSession) resp(i int) wframe {
	s.mu.Lock()
	defer s.mu.Unlock()
	return s.resps[i]
}

// call feeds one request and waits for its response (sequential use only).
func (s *srvSession) call(frame []byte) (wframe, bool) {
	n := s.nResps()
	s.feed(frame, true)
	if !s.waitResps(n+1, 20*time.Second) {
		return wframe{}, false
	}
	return s.resp(n), true
}

func (s *srvSession) isReady(o int) bool {
	s.mu.Lock()
	defer s.mu.Unlock()
	return s.ready[o]
}

func (s *srvSession) hasBegun(o int) bool {
	s.mu.Lock()
	defer s.mu.Unlock()
	return s.began[o]
}

func (s *srvSession) finiSeen() bool {
	s.mu.Lock()
	defer s.mu.Unlock()
	return s.fini
}

func (s *srvSession) waitServe(d time.Duration) bool {
	select {
	case <-s.serveDone:
		return true
	case <-time.After(d):
		return false
	}
}

// endEOF: the peer stops sending (half close) but keeps reading.
func (s *srvSession) endEOF() { s.c2s.CloseWrite(nil) }

func (s *srvSession) outBytes() []byte {
	s.mu.Lock()
	defer s.mu.Unlock()
	return append([]byte(nil), s.out...)
}

func (s *srvSession) usedPages() int {
	var a *allocator
	if s.srv != nil {
		a = s.srv.pktMgr.alloc
	} else {
		a = s.rs.pktMgr.alloc
	}
	if a == nil {
		return 0
	}
	return a.countUsedPages()
}

func (s *srvSession) openHandles() int {
	if s.srv != nil {
		s.srv.openFilesLock.RLock()
		defer s.srv.openFilesLock.RUnlock()
		return len(s.srv.openFiles)
	}
	s.rs.mu.RLock()
	defer s.rs.mu.RUnlock()
	return len(s.rs.openRequests)
}

// ---------------------------------------------------------------- os tree helpers

var fixedTime = time.Unix(1700000000, 0)

// prepRoot (re)creates a directory with deterministic content and times.
func prepRoot(t testing.TB, name string) string {
	base := os.Getenv("VERIF_WORK")
	if base == "" {
		base = t.TempDir()
	}
	root := filepath.Join(base, name)
	os.RemoveAll(root)
	if err := os.MkdirAll(root, 0o755); err != nil {
		t.Fatal(err)
	}
	return root
}

func posData(n int, salt byte) []byte {
	b := make([]byte, n)
	for i := range b {
		b[i] = byte(1 + (i+int(salt)*7)%251)
	}
	return b
}

func writeFixed(t testing.TB, p string, data []byte) {
	if err := os.WriteFile(p, data, 0o644); err != nil {
		t.Fatal(err)
	}
	os.Chtimes(p, fixedTime.Add(10*time.Second), fixedTime)
}

func mustJSON(v any) string {
	b, err := json.Marshal(v)
	if err != nil {
		panic(err)
	}
	return string(b)
}

func loadScenarios(t testing.TB, env string, into any) bool {
	p := os.Getenv(env)
	if p == "" {
		return false
	}
	b, err := os.ReadFile(p)
	if err != nil {
		t.Fatalf("scenario file: %v", err)
	}
	if err := json.Unmarshal(b, into); err != nil {
		t.Fatalf("scenario file %s: %v", p, err)
	}
	return true
}

var _ = fmt.Sprintf
