//go:build verif

package sftp

// C06: every packet enumerated by WireEnum.tla (with the reference encoding computed by TLC from Wire.tla) is built
// in both Go codecs - the wire codec of package sftp and internal/encoding/ssh/filexfer - encoded and decoded:
//   encode: both codecs must produce exactly the reference bytes (and sendPacket the right length prefix),
//   decode: both codecs must accept the reference bytes and yield the packet's fields.
// In the other direction seeded random packets are encoded by both Go codecs and logged with their fields; TLC
// evaluates Enc on the logged fields (TraceWire.tla).

import (
	"bytes"
	"encoding"
	"encoding/binary"
	"encoding/json"
	"fmt"
	"math/rand"
	"reflect"
	"testing"

	sshfx "github.com/pkg/sftp/internal/encoding/ssh/filexfer"
	"github.com/pkg/sftp/internal/encoding/ssh/filexfer/openssh"
)

type jAttrs struct {
	Fl    []string  `json:"fl"`
	Size  []int     `json:"size"`
	UID   []int     `json:"uid"`
	GID   []int     `json:"gid"`
	Perm  []int     `json:"perm"`
	Atime []int     `json:"atime"`
	Mtime []int     `json:"mtime"`
	Ext   [][][]int `json:"ext"`
}

type jName struct {
	Name  []int  `json:"name"`
	Long  []int  `json:"long"`
	Attrs jAttrs `json:"attrs"`
}

type wireCase struct {
	P struct {
		T int               `json:"t"`
		F []json.RawMessage `json:"f"`
	} `json:"p"`
	Bytes []int `json:"bytes"`
}

func bs(v []int) []byte {
	out := make([]byte, len(v))
	for i, x := range v {
		out[i] = byte(x)
	}
	return out
}

func rawBytes(m json.RawMessage) []byte {
	var v []int
	json.Unmarshal(m, &v)
	return bs(v)
}
func rawU32(m json.RawMessage) uint32 { return binary.BigEndian.Uint32(rawBytes(m)) }
func rawU64(m json.RawMessage) uint64 { return binary.BigEndian.Uint64(rawBytes(m)) }
func rawStr(m json.RawMessage) string { return string(rawBytes(m)) }
func rawAttrs(m json.RawMessage) jAttrs {
	var a jAttrs
	json.Unmarshal(m, &a)
	return a
}

func (a jAttrs) flags() uint32 {
	var f uint32
	for _, s := range a.Fl {
		switch s {
		case "size":
			f |= 1
		case "uidgid":
			f |= 2
		case "perm":
			f |= 4
		case "time":
			f |= 8
		case "ext":
			f |= 0x80000000
		}
	}
	return f
}

func u32of(v []int) uint32 {
	if len(v) != 4 {
		return 0
	}
	return binary.BigEndian.Uint32(bs(v))
}

func (a jAttrs) fileStat() *FileStat {
	fs := &FileStat{Mode: u32of(a.Perm), Mtime: u32of(a.Mtime), Atime: u32of(a.Atime), UID: u32of(a.UID), GID: u32of(a.GID)}
	if len(a.Size) == 8 {
		fs.Size = binary.BigEndian.Uint64(bs(a.Size))
	}
	if a.flags()&0x80000000 != 0 {
		fs.Extended = []StatExtended{}
		for _, e := range a.Ext {
			fs.Extended = append(fs.Extended, StatExtended{string(bs(e[0])), string(bs(e[1]))})
		}
	}
	return fs
}

func (a jAttrs) fx() sshfx.Attributes {
	x := sshfx.Attributes{Flags: a.flags(), UID: u32of(a.UID), GID: u32of(a.GID), Permissions: sshfx.FileMode(u32of(a.Perm)), ATime: u32of(a.Atime), MTime: u32of(a.Mtime)}
	if len(a.Size) == 8 {
		x.Size = binary.BigEndian.Uint64(bs(a.Size))
	}
	for _, e := range a.Ext {
		x.ExtendedAttributes = append(x.ExtendedAttributes, sshfx.ExtendedAttribute{Type: string(bs(e[0])), Data: string(bs(e[1]))})
	}
	return x
}

// sameFileStat compares only the attribute groups whose flag is set (the others are unspecified on the wire).
func sameFileStat(flags uint32, a, b *FileStat) bool {
	if a == nil || b == nil {
		return false
	}
	if flags&1 != 0 && a.Size != b.Size {
		return false
	}
	if flags&2 != 0 && (a.UID != b.UID || a.GID != b.GID) {
		return false
	}
	if flags&4 != 0 && a.Mode != b.Mode {
		return false
	}
	if flags&8 != 0 && (a.Atime != b.Atime || a.Mtime != b.Mtime) {
		return false
	}
	if flags&0x80000000 != 0 {
		if len(a.Extended) != len(b.Extended) {
			return false
		}
		for i := range a.Extended {
			if a.Extended[i] != b.Extended[i] {
				return false
			}
		}
	}
	return true
}

func marshalWhole(m encoding.BinaryMarshaler) ([]byte, error) {
	// through sendPacket, as on the wire: header and payload writes, length prefix computed there
	var buf bytes.Buffer
	err := sendPacket(&buf, m)
	return buf.Bytes(), err
}

type wireResult struct {
	pkgEnc, pkgDec, fxEnc, fxDec string // "" = ok, "n/a" = this codec has no such operation, otherwise what went wrong
}

// fxPairsEqual: the decoded extension pairs are the encoded ones, each with its own name and data, in order.
func fxPairsEqual(got []*sshfx.ExtensionPair, want []sshfx.ExtensionPair) bool {
	if len(got) != len(want) {
		return false
	}
	for i := range want {
		if got[i] == nil || got[i].Name != want[i].Name || got[i].Data != want[i].Data {
			return false
		}
	}
	return true
}

func catch(f func() string) (s string) {
	defer func() {
		if r := recover(); r != nil {
			s = fmt.Sprintf("panic: %v", r)
		}
	}()
	return f()
}

var extArity = map[string]int{"statvfs@openssh.com": 1, "posix-rename@openssh.com": 2, "hardlink@openssh.com": 2, "fsync@openssh.com": 1}

// extPayload splits the payload of a known extension into its strings.
func extPayload(b []byte, n int) []string {
	r := &rb{b: b}
	var out []string
	for i := 0; i < n; i++ {
		out = append(out, r.str())
	}
	return out
}

func eqBytes(got []byte, err error, want []byte) string {
	if err != nil {
		return "error: " + err.Error()
	}
	if !bytes.Equal(got, want) {
		return fmt.Sprintf("bytes differ: got %x want %x", got, want)
	}
	return ""
}

func fxCompose(p sshfx.PacketMarshaller, id uint32) ([]byte, error) {
	return sshfx.ComposePacket(p.MarshalPacket(id, nil))
}

func checkWireCase(c wireCase) wireResult {
	want := bs(c.Bytes)
	body := want[5:] // after length and type
	f := c.P.F
	res := wireResult{"n/a", "n/a", "n/a", "n/a"}
	t := c.P.T
	// ---- package sftp codec
	var pkgPkt encoding.BinaryMarshaler
	var fxPkt sshfx.PacketMarshaller
	var fxNew func() interface {
		UnmarshalPacketBody(*sshfx.Buffer) error
	}
	var id uint32
	if t != 1 && t != 2 {
		id = rawU32(f[0])
	}
	reqDec := func(check func(p requestPacket) bool) {
		res.pkgDec = catch(func() string {
			p, err := makePacket(rxPacket{fxp(t), body})
			if err != nil {
				return "error: " + err.Error()
			}
			if !check(p) {
				return fmt.Sprintf("fields differ: %+v", p)
			}
			return ""
		})
	}
	switch t {
	case 1, 2:
		var pairs [][][]int
		json.Unmarshal(f[1], &pairs)
		ver := rawU32(f[0])
		var fxp_ []sshfx.ExtensionPair
		if t == 1 {
			ip := &sshFxInitPacket{Version: ver}
			for _, e := range pairs {
				ip.Extensions = append(ip.Extensions, extensionPair{string(bs(e[0])), string(bs(e[1]))})
			}
			pkgPkt = ip
			reqDec(func(p requestPacket) bool {
				q := p.(*sshFxInitPacket)
				return q.Version == ver && (len(q.Extensions) == 0 && len(ip.Extensions) == 0 || reflect.DeepEqual(q.Extensions, ip.Extensions))
			})
		} else {
			vp := &sshFxVersionPacket{Version: ver}
			for _, e := range pairs {
				vp.Extensions = append(vp.Extensions, sshExtensionPair{string(bs(e[0])), string(bs(e[1]))})
			}
			pkgPkt = vp
			res.pkgDec = catch(func() string { // the client decodes VERSION with the INIT layout (recvVersion)
				var q sshFxInitPacket
				if err := q.UnmarshalBinary(body); err != nil {
					return "error: " + err.Error()
				}
				if q.Version != ver || len(q.Extensions) != len(pairs) {
					return "fields differ"
				}
				for i, e := range pairs { // every pair, in order, with its own name and data
					if q.Extensions[i].Name != string(bs(e[0])) || q.Extensions[i].Data != string(bs(e[1])) {
						return "extension pairs differ"
					}
				}
				return ""
			})
		}
		for _, e := range pairs {
			fxp_ = append(fxp_, sshfx.ExtensionPair{Name: string(bs(e[0])), Data: string(bs(e[1]))})
		}
		// filexfer: Init/Version packets have their own (id-less) marshalling
		res.fxEnc = catch(func() string {
			var b []byte
			var err error
			if t == 1 {
				b, err = (&sshfx.InitPacket{Version: ver, Extensions: toPtrs(fxp_)}).MarshalBinary()
			} else {
				b, err = (&sshfx.VersionPacket{Version: ver, Extensions: toPtrs(fxp_)}).MarshalBinary()
			}
			return eqBytes(b, err, want)
		})
		res.fxDec = catch(func() string {
			if t == 1 {
				var q sshfx.InitPacket
				if err := q.UnmarshalBinary(want[5:]); err != nil { // the body after the type byte
					return "error: " + err.Error()
				}
				if q.Version != ver || !fxPairsEqual(q.Extensions, fxp_) {
					return "fields differ"
				}
			} else {
				var q sshfx.VersionPacket
				if err := q.UnmarshalBinary(want[5:]); err != nil {
					return "error: " + err.Error()
				}
				if q.Version != ver || !fxPairsEqual(q.Extensions, fxp_) {
					return "fields differ"
				}
			}
			return ""
		})
		res.pkgEnc = catch(func() string { b, err := marshalWhole(pkgPkt); return eqBytes(b, err, want) })
		return res
	case 3:
		a := rawAttrs(f[3])
		path, pf := rawStr(f[1]), rawU32(f[2])
		pkgPkt = &sshFxpOpenPacket{ID: id, Path: path, Pflags: pf, Flags: a.flags(), Attrs: a.fileStat()}
		reqDec(func(p requestPacket) bool {
			q := p.(*sshFxpOpenPacket)
			fs, err := q.unmarshalFileStat(q.Flags)
			return q.ID == id && q.Path == path && q.Pflags == pf && q.Flags == a.flags() && err == nil && sameFileStat(q.Flags, fs, a.fileStat())
		})
		fxPkt = &sshfx.OpenPacket{Filename: path, PFlags: pf, Attrs: a.fx()}
	case 4, 8, 12, 7, 11, 13, 15, 16, 17, 19:
		s := rawStr(f[1])
		switch t {
		case 4:
			pkgPkt, fxPkt = &sshFxpClosePacket{ID: id, Handle: s}, &sshfx.ClosePacket{Handle: s}
		case 8:
			pkgPkt, fxPkt = &sshFxpFstatPacket{ID: id, Handle: s}, &sshfx.FStatPacket{Handle: s}
		case 12:
			pkgPkt, fxPkt = &sshFxpReaddirPacket{ID: id, Handle: s}, &sshfx.ReadDirPacket{Handle: s}
		case 7:
			pkgPkt, fxPkt = &sshFxpLstatPacket{ID: id, Path: s}, &sshfx.LStatPacket{Path: s}
		case 11:
			pkgPkt, fxPkt = &sshFxpOpendirPacket{ID: id, Path: s}, &sshfx.OpenDirPacket{Path: s}
		case 13:
			pkgPkt, fxPkt = &sshFxpRemovePacket{ID: id, Filename: s}, &sshfx.RemovePacket{Path: s}
		case 15:
			pkgPkt, fxPkt = &sshFxpRmdirPacket{ID: id, Path: s}, &sshfx.RmdirPacket{Path: s}
		case 16:
			pkgPkt, fxPkt = &sshFxpRealpathPacket{ID: id, Path: s}, &sshfx.RealPathPacket{Path: s}
		case 17:
			pkgPkt, fxPkt = &sshFxpStatPacket{ID: id, Path: s}, &sshfx.StatPacket{Path: s}
		case 19:
			pkgPkt, fxPkt = &sshFxpReadlinkPacket{ID: id, Path: s}, &sshfx.ReadLinkPacket{Path: s}
		}
		reqDec(func(p requestPacket) bool {
			if p.id() != id {
				return false
			}
			if h, ok := p.(hasHandle); ok {
				return h.getHandle() == s
			}
			return p.(hasPath).getPath() == s
		})
	case 5:
		h, off, n := rawStr(f[1]), rawU64(f[2]), rawU32(f[3])
		pkgPkt, fxPkt = &sshFxpReadPacket{ID: id, Handle: h, Offset: off, Len: n}, &sshfx.ReadPacket{Handle: h, Offset: off, Length: n}
		reqDec(func(p requestPacket) bool {
			q := p.(*sshFxpReadPacket)
			return q.ID == id && q.Handle == h && q.Offset == off && q.Len == n
		})
	case 6:
		h, off, d := rawStr(f[1]), rawU64(f[2]), rawBytes(f[3])
		pkgPkt, fxPkt = &sshFxpWritePacket{ID: id, Handle: h, Offset: off, Length: uint32(len(d)), Data: d}, &sshfx.WritePacket{Handle: h, Offset: off, Data: d}
		reqDec(func(p requestPacket) bool {
			q := p.(*sshFxpWritePacket)
			return q.ID == id && q.Handle == h && q.Offset == off && q.Length == uint32(len(d)) && bytes.Equal(q.Data, d)
		})
	case 9, 10, 14:
		s, a := rawStr(f[1]), rawAttrs(f[2])
		switch t {
		case 9:
			pkgPkt, fxPkt = &sshFxpSetstatPacket{ID: id, Path: s, Flags: a.flags(), Attrs: a.fileStat()}, &sshfx.SetstatPacket{Path: s, Attrs: a.fx()}
			reqDec(func(p requestPacket) bool {
				q := p.(*sshFxpSetstatPacket)
				fs, err := q.unmarshalFileStat(q.Flags)
				return q.ID == id && q.Path == s && q.Flags == a.flags() && err == nil && sameFileStat(q.Flags, fs, a.fileStat())
			})
		case 10:
			pkgPkt, fxPkt = &sshFxpFsetstatPacket{ID: id, Handle: s, Flags: a.flags(), Attrs: a.fileStat()}, &sshfx.FSetstatPacket{Handle: s, Attrs: a.fx()}
			reqDec(func(p requestPacket) bool {
				q := p.(*sshFxpFsetstatPacket)
				fs, err := q.unmarshalFileStat(q.Flags)
				return q.ID == id && q.Handle == s && q.Flags == a.flags() && err == nil && sameFileStat(q.Flags, fs, a.fileStat())
			})
		case 14:
			// the wire codec of package sftp only knows MKDIR with an attribute flags word and nothing else
			fxPkt = &sshfx.MkdirPacket{Path: s, Attrs: a.fx()}
			if a.flags() == 0 {
				pkgPkt = &sshFxpMkdirPacket{ID: id, Path: s}
			}
			reqDec(func(p requestPacket) bool {
				q := p.(*sshFxpMkdirPacket)
				return q.ID == id && q.Path == s && q.Flags == a.flags()
			})
		}
	case 18, 20:
		s1, s2 := rawStr(f[1]), rawStr(f[2])
		if t == 18 {
			pkgPkt, fxPkt = &sshFxpRenamePacket{ID: id, Oldpath: s1, Newpath: s2}, &sshfx.RenamePacket{OldPath: s1, NewPath: s2}
			reqDec(func(p requestPacket) bool {
				q := p.(*sshFxpRenamePacket)
				return q.ID == id && q.Oldpath == s1 && q.Newpath == s2
			})
		} else {
			// on the wire (OpenSSH order): targetpath first, then linkpath
			pkgPkt, fxPkt = &sshFxpSymlinkPacket{ID: id, Targetpath: s1, Linkpath: s2}, &sshfx.SymlinkPacket{TargetPath: s1, LinkPath: s2}
			reqDec(func(p requestPacket) bool {
				q := p.(*sshFxpSymlinkPacket)
				return q.ID == id && q.Targetpath == s1 && q.Linkpath == s2
			})
		}
	case 101:
		code, msg, lang := rawU32(f[1]), rawStr(f[2]), rawStr(f[3])
		pkgPkt = &sshFxpStatusPacket{ID: id, StatusError: StatusError{Code: code, msg: msg, lang: lang}}
		fxPkt = &sshfx.StatusPacket{StatusCode: sshfx.Status(code), ErrorMessage: msg, LanguageTag: lang}
		res.pkgDec = catch(func() string {
			err := unmarshalStatus(id, body)
			se, ok := err.(*StatusError)
			if !ok || se.Code != code || se.msg != msg || se.lang != lang {
				return fmt.Sprintf("fields differ: %#v", err)
			}
			return ""
		})
	case 102:
		h := rawStr(f[1])
		pkgPkt, fxPkt = &sshFxpHandlePacket{ID: id, Handle: h}, &sshfx.HandlePacket{Handle: h}
		res.pkgDec = catch(func() string {
			var gid uint32
			var gs string
			if err := unmarshalIDString(body, &gid, &gs); err != nil || gid != id || gs != h {
				return "fields differ"
			}
			return ""
		})
	case 103:
		d := rawBytes(f[1])
		pkgPkt, fxPkt = &sshFxpDataPacket{ID: id, Length: uint32(len(d)), Data: d}, &sshfx.DataPacket{Data: d}
		res.pkgDec = catch(func() string {
			var q sshFxpDataPacket
			if err := q.UnmarshalBinary(body); err != nil || q.ID != id || !bytes.Equal(q.Data, d) {
				return "fields differ"
			}
			return ""
		})
	case 104:
		var names []jName
		json.Unmarshal(f[1], &names)
		np := &sshFxpNamePacket{ID: id}
		fp := &sshfx.NamePacket{}
		for _, n := range names {
			np.NameAttrs = append(np.NameAttrs, &sshFxpNameAttr{Name: string(bs(n.Name)), LongName: string(bs(n.Long)),
				Attrs: []any{n.Attrs.flags(), marshalFileStat(nil, n.Attrs.flags(), n.Attrs.fileStat())}})
			fp.Entries = append(fp.Entries, &sshfx.NameEntry{Filename: string(bs(n.Name)), Longname: string(bs(n.Long)), Attrs: n.Attrs.fx()})
		}
		pkgPkt, fxPkt = np, fp
		res.pkgDec = catch(func() string { // what the client's READDIR loop does with a NAME packet
			sid, data := unmarshalUint32(body)
			count, data := unmarshalUint32(data)
			if sid != id || int(count) != len(names) {
				return "count differs"
			}
			for _, n := range names {
				var fn, ln string
				fn, data = unmarshalString(data)
				ln, data = unmarshalString(data)
				var at *FileStat
				var err error
				at, data, err = unmarshalAttrs(data)
				if err != nil || fn != string(bs(n.Name)) || ln != string(bs(n.Long)) || !sameFileStat(n.Attrs.flags(), at, n.Attrs.fileStat()) {
					return "entry differs"
				}
			}
			return ""
		})
	case 105:
		a := rawAttrs(f[1])
		fxPkt = &sshfx.AttrsPacket{Attrs: a.fx()}
		res.pkgDec = catch(func() string {
			sid, data := unmarshalUint32(body)
			at, _, err := unmarshalAttrs(data)
			if sid != id || err != nil || !sameFileStat(a.flags(), at, a.fileStat()) {
				return "fields differ"
			}
			return ""
		})
	case 200:
		name := rawStr(f[1])
		payload := rawBytes(f[2])
		parts := extPayload(payload, extArity[name])
		switch name {
		case "statvfs@openssh.com":
			pkgPkt, fxPkt = &sshFxpStatvfsPacket{ID: id, Path: parts[0]}, &openssh.StatVFSExtendedPacket{Path: parts[0]}
		case "posix-rename@openssh.com":
			pkgPkt, fxPkt = &sshFxpPosixRenamePacket{ID: id, Oldpath: parts[0], Newpath: parts[1]}, &openssh.POSIXRenameExtendedPacket{OldPath: parts[0], NewPath: parts[1]}
		case "hardlink@openssh.com":
			pkgPkt, fxPkt = &sshFxpHardlinkPacket{ID: id, Oldpath: parts[0], Newpath: parts[1]}, &openssh.HardlinkExtendedPacket{OldPath: parts[0], NewPath: parts[1]}
		case "fsync@openssh.com":
			pkgPkt, fxPkt = &sshFxpFsyncPacket{ID: id, Handle: parts[0]}, &openssh.FSyncExtendedPacket{Handle: parts[0]}
		}
		if name != "fsync@openssh.com" { // the server side of package sftp does not know fsync
			reqDec(func(p requestPacket) bool {
				q := p.(*sshFxpExtendedPacket)
				if q.ID != id || q.ExtendedRequest != name || q.SpecificPacket == nil {
					return false
				}
				switch sp := q.SpecificPacket.(type) {
				case *sshFxpExtendedPacketStatVFS:
					return sp.Path == parts[0]
				case *sshFxpExtendedPacketPosixRename:
					return sp.Oldpath == parts[0] && sp.Newpath == parts[1]
				case *sshFxpExtendedPacketHardlink:
					return sp.Oldpath == parts[0] && sp.Newpath == parts[1]
				}
				return false
			})
		}
		res.fxDec = catch(func() string { // filexfer: generic extended packet
			var rp sshfx.RequestPacket
			if err := rp.UnmarshalBinary(want[4:]); err != nil {
				return "error: " + err.Error()
			}
			ep, ok := rp.Request.(*sshfx.ExtendedPacket)
			if !ok || rp.RequestID != id || ep.ExtendedRequest != name {
				return "fields differ"
			}
			return ""
		})
	case 201:
		payload := rawBytes(f[1])
		var sv StatVFS
		binary.Read(bytes.NewReader(append(binary.BigEndian.AppendUint32(nil, id), payload...)), binary.BigEndian, &sv)
		pkgPkt = &sv
		var rp openssh.StatVFSExtendedReplyPacket
		rp.UnmarshalPacketBody(sshfx.NewBuffer(payload))
		fxPkt = &rp
		res.pkgDec = catch(func() string { // Client.StatVFS
			var got StatVFS
			if err := binary.Read(bytes.NewReader(body), binary.BigEndian, &got); err != nil || got != sv {
				return "fields differ"
			}
			return ""
		})
	}
	if pkgPkt != nil {
		res.pkgEnc = catch(func() string { b, err := marshalWhole(pkgPkt); return eqBytes(b, err, want) })
	}
	if fxPkt != nil {
		res.fxEnc = catch(func() string { b, err := fxCompose(fxPkt, id); return eqBytes(b, err, want) })
		if res.fxDec == "n/a" {
			res.fxDec = catch(func() string {
				// decode the reference bytes into a fresh packet of the same Go type and compare with the one built from the fields
				fresh := reflect.New(reflect.TypeOf(fxPkt).Elem()).Interface()
				u, ok := fresh.(interface {
					UnmarshalPacketBody(*sshfx.Buffer) error
				})
				if !ok {
					return "n/a"
				}
				if err := u.UnmarshalPacketBody(sshfx.NewBuffer(append([]byte(nil), want[9:]...))); err != nil {
					return "error: " + err.Error()
				}
				b, err := fxCompose(fresh.(sshfx.PacketMarshaller), id)
				if e := eqBytes(b, err, want); e != "" {
					return "re-encoding after decode: " + e
				}
				if !fxEqual(fresh, fxPkt) {
					return fmt.Sprintf("fields differ: %+v vs %+v", fresh, fxPkt)
				}
				// the same with a packet value that is REUSED across decodes (buffers of an earlier, longer payload must not leak)
				typ := reflect.TypeOf(fxPkt).Elem()
				old, ok := fxReuse[typ]
				if !ok {
					old = reflect.New(typ).Interface()
					fxReuse[typ] = old
				}
				if err := old.(interface {
					UnmarshalPacketBody(*sshfx.Buffer) error
				}).UnmarshalPacketBody(sshfx.NewBuffer(append([]byte(nil), want[9:]...))); err != nil {
					return "reused packet value: error: " + err.Error()
				}
				b, err = fxCompose(old.(sshfx.PacketMarshaller), id)
				if e := eqBytes(b, err, want); e != "" {
					return "decode into a reused packet value: " + e
				}
				return ""
			})
		}
	}
	_ = fxNew
	return res
}

var fxReuse = map[reflect.Type]any{}

func toPtrs(p []sshfx.ExtensionPair) []*sshfx.ExtensionPair {
	var out []*sshfx.ExtensionPair
	for i := range p {
		out = append(out, &p[i])
	}
	return out
}

// fxEqual compares two filexfer packets field by field (nil and empty slices are the same thing on the wire).
func fxEqual(a, b any) bool {
	ja, _ := json.Marshal(a)
	jb, _ := json.Marshal(b)
	norm := func(s []byte) string {
		r := string(s)
		r = replaceAll(r, `"Data":""`, `"Data":null`)
		for _, k := range []string{`"ExtendedAttributes":null`, `"Entries":null`} {
			r = replaceAll(r, k, k[:len(k)-4]+"[]")
		}
		return r
	}
	return norm(ja) == norm(jb)
}

func replaceAll(s, old, new string) string {
	return string(bytes.ReplaceAll([]byte(s), []byte(old), []byte(new)))
}

func TestVerif_WireTable(t *testing.T) {
	tr := newTracer(t)
	var cases []wireCase
	if !loadScenarios(t, "VERIF_SCEN", &cases) {
		t.Fatal("C06 needs the packets exported from WireEnum.tla (VERIF_SCEN)")
	}
	for i, c := range cases {
		if i%500 == 0 {
			tr.reset(kv{"kind": "wire", "table": "enum", "from": i})
		}
		r := checkWireCase(c)
		if r.fxDec == "" || r.fxDec == "n/a" {
			// the filexfer STREAM reader accepts the same bytes: frame length, type byte, id, and nothing lost
			r.fxDec = catch(func() string {
				var raw sshfx.RawPacket
				if err := raw.ReadFrom(bytes.NewReader(bs(c.Bytes)), nil, maxMsgLength); err != nil {
					return "stream reader: " + err.Error()
				}
				if int(raw.PacketType) != c.P.T || 9+raw.Data.Len() != len(c.Bytes) {
					return "stream reader: type or length differ"
				}
				return r.fxDec
			})
		}
		if (r.fxDec == "" || r.fxDec == "n/a") && ((c.P.T >= 3 && c.P.T <= 20) || c.P.T == 200) {
			// the type-dispatching request decoder of filexfer yields a packet of THIS type and re-encodes to the same bytes
			r.fxDec = catch(func() string {
				var rp sshfx.RequestPacket
				if err := rp.UnmarshalBinary(bs(c.Bytes)[4:]); err != nil {
					return "request decoder: " + err.Error()
				}
				if rp.Request == nil || int(rp.Request.Type()) != c.P.T {
					return fmt.Sprintf("request decoder: dispatched to type %v", rp.Request.Type())
				}
				if b, err := rp.MarshalBinary(); err != nil || !bytes.Equal(b, bs(c.Bytes)) {
					return "request decoder: re-encoding differs"
				}
				return r.fxDec
			})
		}
		tr.emit("WireCase", kv{"i": i, "t": c.P.T, "typ": typName(byte(c.P.T)), "pkgenc": r.pkgEnc, "pkgdec": r.pkgDec, "fxenc": r.fxEnc, "fxdec": r.fxDec, "len": len(c.Bytes)})
	}
}

// TestVerif_WireRandom: direction A. Seeded random packets (ids, offsets, strings, payloads, attribute subsets) are encoded
// by both Go codecs and logged together with their fields in the vocabulary of Wire.tla; TLC computes Enc(fields).
func TestVerif_WireRandom(t *testing.T) {
	tr := newTracer(t)
	r := vRand(21)
	n := 400
	if vThorough() {
		n = 6000
	}
	rb4 := func() []int {
		switch r.Intn(4) {
		case 0:
			return []int{0, 0, 0, r.Intn(256)}
		case 1:
			return []int{255, 255, 255, 255}
		}
		return []int{r.Intn(256), r.Intn(256), r.Intn(256), r.Intn(256)}
	}
	rb8 := func() []int { return append(rb4(), rb4()...) }
	rstr := func() []int {
		l := []int{0, 1, 3, 17, 64}[r.Intn(5)]
		out := make([]int, l)
		for i := range out {
			out[i] = r.Intn(256)
		}
		return out
	}
	rattrs := func() (kv, jAttrs) {
		var fl []string
		a := jAttrs{Size: make([]int, 8), UID: make([]int, 4), GID: make([]int, 4), Perm: make([]int, 4), Atime: make([]int, 4), Mtime: make([]int, 4), Ext: [][][]int{}}
		if r.Intn(2) == 0 {
			fl = append(fl, "size")
			a.Size = rb8()
		}
		if r.Intn(2) == 0 {
			fl = append(fl, "uidgid")
			a.UID, a.GID = rb4(), rb4()
		}
		if r.Intn(2) == 0 {
			fl = append(fl, "perm")
			a.Perm = rb4()
		}
		if r.Intn(2) == 0 {
			fl = append(fl, "time")
			a.Atime, a.Mtime = rb4(), rb4()
		}
		if r.Intn(3) == 0 {
			fl = append(fl, "ext")
			for i := r.Intn(3); i > 0; i-- {
				a.Ext = append(a.Ext, [][]int{rstr(), rstr()})
			}
		}
		if fl == nil {
			fl = []string{}
		}
		a.Fl = fl
		return kv{"fl": fl, "size": a.Size, "uid": a.UID, "gid": a.GID, "perm": a.Perm, "atime": a.Atime, "mtime": a.Mtime, "ext": a.Ext}, a
	}
	for i := 0; i < n; i++ {
		if i%200 == 0 {
			tr.reset(kv{"kind": "wire", "table": "random", "from": i})
		}
		id := rb4()
		idv := binary.BigEndian.Uint32(bs(id))
		var tlaF []any
		var p1 encoding.BinaryMarshaler
		var p2 sshfx.PacketMarshaller
		typ := []int{3, 5, 6, 9, 10, 18, 20, 101, 103, 105, 17, 4}[i%12]
		switch typ {
		case 3:
			s, pf := rstr(), rb4()
			ak, a := rattrs()
			tlaF = []any{id, s, pf, ak}
			p1 = &sshFxpOpenPacket{ID: idv, Path: string(bs(s)), Pflags: u32of(pf), Flags: a.flags(), Attrs: a.fileStat()}
			p2 = &sshfx.OpenPacket{Filename: string(bs(s)), PFlags: u32of(pf), Attrs: a.fx()}
		case 5:
			s, off, l := rstr(), rb8(), rb4()
			tlaF = []any{id, s, off, l}
			p1 = &sshFxpReadPacket{ID: idv, Handle: string(bs(s)), Offset: binary.BigEndian.Uint64(bs(off)), Len: u32of(l)}
			p2 = &sshfx.ReadPacket{Handle: string(bs(s)), Offset: binary.BigEndian.Uint64(bs(off)), Length: u32of(l)}
		case 6:
			s, off, d := rstr(), rb8(), rstr()
			tlaF = []any{id, s, off, d}
			p1 = &sshFxpWritePacket{ID: idv, Handle: string(bs(s)), Offset: binary.BigEndian.Uint64(bs(off)), Length: uint32(len(d)), Data: bs(d)}
			p2 = &sshfx.WritePacket{Handle: string(bs(s)), Offset: binary.BigEndian.Uint64(bs(off)), Data: bs(d)}
		case 9, 10:
			s := rstr()
			ak, a := rattrs()
			tlaF = []any{id, s, ak}
			if typ == 9 {
				p1, p2 = &sshFxpSetstatPacket{ID: idv, Path: string(bs(s)), Flags: a.flags(), Attrs: a.fileStat()}, &sshfx.SetstatPacket{Path: string(bs(s)), Attrs: a.fx()}
			} else {
				p1, p2 = &sshFxpFsetstatPacket{ID: idv, Handle: string(bs(s)), Flags: a.flags(), Attrs: a.fileStat()}, &sshfx.FSetstatPacket{Handle: string(bs(s)), Attrs: a.fx()}
			}
		case 18, 20:
			s1, s2 := rstr(), rstr()
			tlaF = []any{id, s1, s2}
			if typ == 18 {
				p1, p2 = &sshFxpRenamePacket{ID: idv, Oldpath: string(bs(s1)), Newpath: string(bs(s2))}, &sshfx.RenamePacket{OldPath: string(bs(s1)), NewPath: string(bs(s2))}
			} else {
				p1, p2 = &sshFxpSymlinkPacket{ID: idv, Targetpath: string(bs(s1)), Linkpath: string(bs(s2))}, &sshfx.SymlinkPacket{TargetPath: string(bs(s1)), LinkPath: string(bs(s2))}
			}
		case 101:
			code, m, lg := rb4(), rstr(), rstr()
			tlaF = []any{id, code, m, lg}
			p1 = &sshFxpStatusPacket{ID: idv, StatusError: StatusError{Code: u32of(code), msg: string(bs(m)), lang: string(bs(lg))}}
			p2 = &sshfx.StatusPacket{StatusCode: sshfx.Status(u32of(code)), ErrorMessage: string(bs(m)), LanguageTag: string(bs(lg))}
		case 103:
			d := rstr()
			tlaF = []any{id, d}
			p1, p2 = &sshFxpDataPacket{ID: idv, Length: uint32(len(d)), Data: bs(d)}, &sshfx.DataPacket{Data: bs(d)}
		case 105:
			ak, a := rattrs()
			tlaF = []any{id, ak}
			p1 = nil
			p2 = &sshfx.AttrsPacket{Attrs: a.fx()}
		case 17:
			s := rstr()
			tlaF = []any{id, s}
			p1, p2 = &sshFxpStatPacket{ID: idv, Path: string(bs(s))}, &sshfx.StatPacket{Path: string(bs(s))}
		case 4:
			s := rstr()
			tlaF = []any{id, s}
			p1, p2 = &sshFxpClosePacket{ID: idv, Handle: string(bs(s))}, &sshfx.ClosePacket{Handle: string(bs(s))}
		}
		b2, err2 := fxCompose(p2, idv)
		b1, err1 := b2, err2
		if p1 != nil {
			b1, err1 = marshalWhole(p1)
		}
		tr.emit("WireEnc", kv{"t": typ, "f": tlaF, "b1": ints(b1), "b2": ints(b2), "err": errStr(err1) + errStr(err2)})
	}
	_ = rand.Int
}
