//go:build verif

package sftp

// C08: every decoding entry point of both codecs on mutated inputs: every truncation point of valid encodings
// (exported from WireEnum.tla), every length / count field replaced by boundary values, every type byte, random bytes.
// Logged per call: outcome class (ok / error / panic), bytes consumed from the reader (framing), bytes allocated.

import (
	"bytes"
	"encoding/binary"
	"fmt"
	"io"
	"runtime"
	"strings"
	"testing"

	sshfx "github.com/pkg/sftp/internal/encoding/ssh/filexfer"
)

type countingReader struct {
	r io.Reader
	n int
}

func (c *countingReader) Read(p []byte) (int, error) { k, err := c.r.Read(p); c.n += k; return k, err }

// measured runs f under recover and reports its outcome and the bytes it allocated.
func measured(f func() error) (class string, alloc uint64, detail string) {
	var m1, m2 runtime.MemStats
	runtime.ReadMemStats(&m1)
	func() {
		defer func() {
			if r := recover(); r != nil {
				class, detail = "panic", fmt.Sprint(r)
			}
		}()
		if err := f(); err != nil {
			class, detail = "error", err.Error()
		} else {
			class = "ok"
		}
	}()
	runtime.ReadMemStats(&m2)
	return class, m2.TotalAlloc - m1.TotalAlloc, detail
}

var decAlloc = newAllocator()
var fxBigBuf = make([]byte, 512*1024)

func frameCalls(tr *tracer, in []byte, desc string) {
	hi, lo := 0, 0
	if len(in) >= 4 {
		v := binary.BigEndian.Uint32(in)
		hi, lo = int(v>>16), int(v&0xffff)
	}
	for _, entry := range []string{"recvPacket", "recvPacket+alloc", "fx.readPacket", "fx.readPacket+bigbuf"} {
		cr := &countingReader{r: bytes.NewReader(in)}
		outlen := -1
		var f func() error
		switch entry {
		case "recvPacket":
			f = func() error {
				typ, payload, err := recvPacket(cr, nil, 0)
				if err == nil {
					outlen = 1 + len(payload)
					_ = typ
				}
				return err
			}
		case "recvPacket+alloc":
			decAlloc.GetPage(1) // warm: the page pool is the allocator's business, not the decoder's
			decAlloc.ReleasePages(1)
			f = func() error {
				_, payload, err := recvPacket(cr, decAlloc, 1)
				if err == nil {
					outlen = 1 + len(payload)
				}
				decAlloc.ReleasePages(1)
				return err
			}
		case "fx.readPacket+bigbuf":
			// a caller-supplied scratch buffer that is larger than the limit: the limit, not the buffer, decides
			f = func() error {
				var rp sshfx.RawPacket
				err := rp.ReadFrom(cr, fxBigBuf, maxMsgLength)
				if err == nil {
					outlen = 1 + 4 + rp.Data.Len()
				}
				return err
			}
		default:
			f = func() error {
				var rp sshfx.RawPacket
				err := rp.ReadFrom(cr, nil, maxMsgLength)
				if err == nil {
					outlen = 1 + 4 + rp.Data.Len()
				}
				return err
			}
		}
		class, alloc, detail := measured(f)
		tr.emit("Frame", kv{"entry": entry, "inlen": len(in), "hi": hi, "lo": lo, "consumed": cr.n, "class": class, "outlen": outlen, "alloc": int(min(alloc, 1<<30)),
			"detail": detail, "desc": desc})
	}
}

// bodyCalls feeds a packet body (type byte + fields, i.e. the frame without its length prefix) to the decoders.
func bodyCalls(tr *tracer, frame []byte, desc string) {
	if len(frame) < 5 {
		return
	}
	typ, body := frame[4], frame[5:]
	emit := func(entry string, inlen int, f func() error) {
		class, alloc, detail := measured(f)
		e := kv{"entry": entry, "inlen": inlen, "class": class, "alloc": int(min(alloc, 1<<30)), "detail": detail, "desc": desc, "typ": int(typ), "strict": false}
		// the two complete request decoders: TLC decides with Wire.tla whether the mutated frame is still well-formed
		if (entry == "makePacket" || entry == "fx.RequestPacket") && desc != "valid" && len(frame) <= 120 && !strings.HasPrefix(desc, "type=") {
			e["strict"] = true
			e["bytes"] = ints(frame)
		}
		tr.emit("Dec", e)
	}
	emit("makePacket", len(body), func() error {
		p, err := makePacket(rxPacket{fxp(typ), body})
		if err == nil {
			// lazily decoded attributes are decoded by these accessors on the server side
			switch q := p.(type) {
			case *sshFxpOpenPacket:
				_, err = q.unmarshalFileStat(q.Flags)
			case *sshFxpSetstatPacket:
				_, err = q.unmarshalFileStat(q.Flags)
			case *sshFxpFsetstatPacket:
				_, err = q.unmarshalFileStat(q.Flags)
			}
		}
		return err
	})
	emit("fx.RequestPacket", len(frame)-4, func() error {
		var rp sshfx.RequestPacket
		return rp.UnmarshalBinary(frame[4:])
	})
	emit("fx.RawPacket", len(frame)-4, func() error {
		var rp sshfx.RawPacket
		return rp.UnmarshalBinary(frame[4:])
	})
	if len(body) >= 4 {
		rest := body[4:]
		switch typ {
		case tStatus:
			emit("fx.StatusPacket", len(rest), func() error { var p sshfx.StatusPacket; return p.UnmarshalPacketBody(sshfx.NewBuffer(rest)) })
		case tHandle:
			emit("fx.HandlePacket", len(rest), func() error { var p sshfx.HandlePacket; return p.UnmarshalPacketBody(sshfx.NewBuffer(rest)) })
		case tData:
			emit("fx.DataPacket", len(rest), func() error { var p sshfx.DataPacket; return p.UnmarshalPacketBody(sshfx.NewBuffer(rest)) })
			emit("DataPacket.UnmarshalBinary", len(body), func() error { var p sshFxpDataPacket; return p.UnmarshalBinary(body) })
		case tName:
			emit("fx.NamePacket", len(rest), func() error { var p sshfx.NamePacket; return p.UnmarshalPacketBody(sshfx.NewBuffer(rest)) })
		case tAttrs:
			emit("fx.AttrsPacket", len(rest), func() error { var p sshfx.AttrsPacket; return p.UnmarshalPacketBody(sshfx.NewBuffer(rest)) })
			emit("fx.Attributes", len(rest), func() error { var a sshfx.Attributes; return a.UnmarshalBinary(rest) })
			emit("unmarshalAttrs", len(rest), func() error { _, _, err := unmarshalAttrs(rest); return err })
			emit("Request.Attributes", len(rest), func() error {
				if len(rest) < 4 {
					return io.ErrUnexpectedEOF
				}
				r := &Request{Flags: binary.BigEndian.Uint32(rest), Attrs: rest[4:]}
				r.Attributes()
				r.AttrFlags()
				return nil
			})
		case tVersion, tInit:
		}
	}
	if typ == tInit || typ == tVersion {
		emit("InitPacket.UnmarshalBinary", len(body), func() error { var p sshFxInitPacket; return p.UnmarshalBinary(body) })
		emit("fx.InitPacket", len(body), func() error { var p sshfx.InitPacket; return p.UnmarshalBinary(body) })
		emit("fx.VersionPacket", len(body), func() error { var p sshfx.VersionPacket; return p.UnmarshalBinary(body) })
		emit("unmarshalExtensionPair", len(body), func() error {
			if len(body) < 4 {
				return io.ErrUnexpectedEOF
			}
			_, _, err := unmarshalExtensionPair(body[4:])
			return err
		})
	}
}

func TestVerif_Decode(t *testing.T) {
	tr := newTracer(t)
	var cases []wireCase
	if !loadScenarios(t, "VERIF_SCEN", &cases) {
		t.Fatal("C08 needs the packets exported from WireEnum.tla (VERIF_SCEN)")
	}
	skip := envInt("VERIF_SKIP", 0)
	caseNo := 0
	r := vRand(31)
	// incl. values whose product with a small element size wraps around 2^32
	boundary := func(n uint32) []uint32 {
		return []uint32{0, 1, n - 1, n + 1, 1<<31 - 1, 1<<32 - 1, 256*1024 + 1, 256 * 1024, 1 << 28, 1 << 29, 1 << 30, 1<<29 + 1, (1<<32)/12 + 1, (1<<32)/24 + 1}
	}
	stride := 23
	if vThorough() {
		stride = 3
	}
	// the limits of the framing rules, with the declared bytes actually present: the smallest frames each reader must
	// accept (1 byte; type + id for the filexfer reader), and the largest (exactly 256 KiB is legal, one more is refused)
	if skip == 0 {
		tr.reset(kv{"kind": "decode", "case": 0, "typ": 0, "desc": "framing limits"})
		tr.flush()
		for _, n := range []int{1, 2, 4, 5, 6, 9, 256*1024 - 1, 256 * 1024, 256*1024 + 1} {
			fr := make([]byte, 4+n)
			binary.BigEndian.PutUint32(fr, uint32(n))
			fr[4] = tWrite
			if n <= 9 {
				fr[4] = tInit
			}
			frameCalls(tr, fr, fmt.Sprintf("limit=%d", n))
		}
	}
	for i, c := range cases {
		if (i+int(vSeed()))%stride != 0 {
			continue
		}
		caseNo++
		if caseNo <= skip {
			continue
		}
		frame := bs(c.Bytes)
		tr.reset(kv{"kind": "decode", "case": caseNo, "typ": typName(frame[4]), "len": len(frame)})
		tr.flush()
		// the valid encoding itself
		frameCalls(tr, frame, "valid")
		bodyCalls(tr, frame, "valid")
		// (a) every truncation point: as a stream that ends early (framing), and as a shorter, self-consistent frame (decoders)
		for k := 0; k < len(frame); k++ {
			frameCalls(tr, frame[:k], fmt.Sprintf("cut@%d", k))
			if k >= 5 {
				short := append([]byte(nil), frame[:k]...)
				binary.BigEndian.PutUint32(short, uint32(k-4))
				bodyCalls(tr, short, fmt.Sprintf("shortened@%d", k))
			}
		}
		// (b) every length / count field replaced by boundary values
		for _, off := range lengthFieldsAll(frame) {
			n := binary.BigEndian.Uint32(frame[off:])
			for _, v := range boundary(n) {
				m := append([]byte(nil), frame...)
				binary.BigEndian.PutUint32(m[off:], v)
				if off == 0 {
					frameCalls(tr, m, fmt.Sprintf("framelen=%d", v))
				} else {
					bodyCalls(tr, m, fmt.Sprintf("len@%d=%d", off, v))
				}
			}
		}
		// (c) every type byte
		for v := 0; v < 256; v++ {
			if v%8 != caseNo%8 && !vThorough() {
				continue
			}
			m := append([]byte(nil), frame...)
			m[4] = byte(v)
			bodyCalls(tr, m, fmt.Sprintf("type=%d", v))
		}
		// (d) random bytes
		for k := 0; k < 4; k++ {
			g := make([]byte, 5+r.Intn(60))
			r.Read(g)
			frameCalls(tr, g, "random")
			binary.BigEndian.PutUint32(g, uint32(len(g)-4))
			g[4] = []byte{3, 9, 101, 104, 105, 200, 2, 6}[k%8]
			bodyCalls(tr, g, "random-body")
		}
	}
}

// lengthFieldsAll: offsets of every u32 that is a length or a count in a frame (by the independent knowledge of the layout),
// including those inside attribute blocks and name lists.
func lengthFieldsAll(fr []byte) []int {
	offs := []int{0}
	if len(fr) < 9 {
		return offs
	}
	typ := fr[4]
	at := 5
	u32 := func() uint32 {
		if at+4 > len(fr) {
			at = len(fr) + 1
			return 0
		}
		v := binary.BigEndian.Uint32(fr[at:])
		at += 4
		return v
	}
	str := func() {
		if at+4 > len(fr) {
			at = len(fr) + 1
			return
		}
		offs = append(offs, at)
		n := u32()
		at += int(n)
	}
	attrs := func() {
		fl := u32()
		if fl&1 != 0 {
			at += 8
		}
		if fl&2 != 0 {
			at += 8
		}
		if fl&4 != 0 {
			at += 4
		}
		if fl&8 != 0 {
			at += 8
		}
		if fl&0x80000000 != 0 && at+4 <= len(fr) {
			offs = append(offs, at)
			n := u32()
			for i := uint32(0); i < n && at < len(fr); i++ {
				str()
				str()
			}
		}
	}
	switch typ {
	case tInit, tVersion:
		u32()
		for at < len(fr) {
			str()
		}
	case tOpen:
		u32()
		str()
		u32()
		attrs()
	case tSetstat, tFsetstat, tMkdir:
		u32()
		str()
		attrs()
	case tRead:
		u32()
		str()
	case tWrite:
		u32()
		str()
		at += 8
		str()
	case tRename, tSymlink:
		u32()
		str()
		str()
	case tStatus:
		u32()
		u32()
		str()
		str()
	case tName:
		u32()
		if at+4 <= len(fr) {
			offs = append(offs, at)
			n := u32()
			for i := uint32(0); i < n && at < len(fr); i++ {
				str()
				str()
				attrs()
			}
		}
	case tAttrs:
		u32()
		attrs()
	case tExtended:
		u32()
		str()
		for at < len(fr) {
			str()
		}
	default:
		u32()
		str()
	}
	var out []int
	for _, o := range offs {
		if o+4 <= len(fr) {
			out = append(out, o)
		}
	}
	return out
}
