//go:build verif

package sftp

// C07: byte streams fed to the real servers.  A valid session is recorded once (frames with the real
// handles), then mutated: cut at byte offsets, every length field replaced by boundary values, type bytes
// replaced, garbage appended.  For each mutated stream M the independent codec computes the maximal
// well-formed prefix P; run A feeds P request by request (awaiting replies) and then the rest of M and EOF,
// run B (reference: "as if the stream had stopped just before the malformed packet") feeds P and EOF.
// Logged: Serve's return, goroutines, descriptors, handler objects, and whether state and responses of A
// equal those of B.  A panic in a package goroutine kills this process; the driver restarts after the case.

import (
	"encoding/binary"
	"fmt"
	"os"
	"path/filepath"
	"sort"
	"strings"
	"testing"
	"time"
)

type sOp struct {
	t    string // request kind
	ref  int    // index of the op that opened the handle used (for handle ops)
	a, b string
	n    int
}

func baseSessions() map[string][]sOp {
	return map[string][]sOp{
		"files": {
			{t: "init"}, {t: "open-r", a: "f1"}, {t: "read", ref: 1, n: 16}, {t: "fstat", ref: 1}, {t: "close", ref: 1},
			{t: "open-w", a: "new"}, {t: "write", ref: 5, a: "hello", n: 0}, {t: "write", ref: 5, a: "world", n: 5},
			{t: "fsetstat-size", ref: 5, n: 3}, {t: "close", ref: 5}, {t: "stat", a: "new"}, {t: "remove", a: "new"},
		},
		"dirs": {
			{t: "init"}, {t: "mkdir", a: "dd"}, {t: "opendir", a: "d"}, {t: "readdir", ref: 2}, {t: "readdir", ref: 2}, {t: "close", ref: 2},
			{t: "symlink", a: "f1", b: "ln"}, {t: "readlink", a: "ln"}, {t: "lstat", a: "ln"}, {t: "realpath", a: "dd/.."},
			{t: "rename", a: "dd", b: "de"}, {t: "rmdir", a: "de"}, {t: "setstat-perm", a: "f2", n: 0o600},
			{t: "posix-rename", a: "f2", b: "f3"}, {t: "hardlink", a: "f3", b: "f4"}, {t: "ext-unknown"}, {t: "stat", a: "f4"},
		},
		"open": {
			{t: "init"}, {t: "open-r", a: "f1"}, {t: "open-rw", a: "f2"}, {t: "opendir", a: "d"}, {t: "write", ref: 2, a: "XYZ", n: 1},
			{t: "read", ref: 1, n: 8}, {t: "mkdir", a: "late"},
		},
	}
}

type streamEnv struct {
	o    srvOpts
	root string
}

func (e *streamEnv) p(name string) string {
	if e.o.kind == "server" {
		return filepath.Join(e.root, name)
	}
	return "/" + name
}

func (e *streamEnv) prep(t testing.TB) {
	if e.o.kind == "server" {
		e.root = prepRoot(t, "stream")
		e.o.workDir = e.root // relative paths of mutated requests must stay inside the scratch tree
		writeFixed(t, filepath.Join(e.root, "f1"), posData(64, 1))
		writeFixed(t, filepath.Join(e.root, "f2"), posData(64, 2))
		os.Mkdir(filepath.Join(e.root, "d"), 0o755)
		writeFixed(t, filepath.Join(e.root, "d", "x"), []byte("x"))
	}
}

func (e *streamEnv) fill(s *srvSession) {
	if s.v != nil {
		s.v.addFile("/f1", posData(64, 1))
		s.v.addFile("/f2", posData(64, 2))
		s.v.addDir("/d")
		s.v.addFile("/d/x", []byte("x"))
	}
}

// stateDigest: what the served files / handlers look like (times excluded: they depend on the wall clock).
func (e *streamEnv) stateDigest(s *srvSession) string {
	if s.v != nil {
		snap := s.v.snapshot()
		var keys []string
		for k, v := range snap {
			keys = append(keys, k+"="+v)
		}
		sort.Strings(keys)
		return strings.Join(keys, ";")
	}
	var parts []string
	filepath.Walk(e.root, func(p string, fi os.FileInfo, err error) error {
		if err != nil {
			return nil
		}
		s := fmt.Sprintf("%s|%v|%d", strings.TrimPrefix(p, e.root), fi.Mode(), fi.Size())
		if fi.Mode().IsRegular() {
			b, _ := os.ReadFile(p)
			s += "|" + hexs(b)
		}
		if fi.Mode()&os.ModeSymlink != 0 {
			l, _ := os.Readlink(p)
			s += "|->" + l
		}
		if fi.IsDir() {
			s = fmt.Sprintf("%s|dir|%v", strings.TrimPrefix(p, e.root), fi.Mode())
		}
		parts = append(parts, s)
		return nil
	})
	sort.Strings(parts)
	return strings.Join(parts, ";")
}

func (e *streamEnv) frame(op sOp, id uint32, handles map[int]string) []byte {
	h := handles[op.ref]
	switch op.t {
	case "init":
		return fInit(3)
	case "open-r":
		return fOpen(id, e.p(op.a), 1, wattrs{})
	case "open-w":
		return fOpen(id, e.p(op.a), 2|8|16, wattrs{Flags: 4, Perm: 0o640})
	case "open-rw":
		return fOpen(id, e.p(op.a), 3, wattrs{})
	case "read":
		return fRead(id, h, 0, uint32(op.n))
	case "write":
		return fWrite(id, h, uint64(op.n), []byte(op.a))
	case "fstat":
		return fIDStr(tFstat, id, h)
	case "fsetstat-size":
		return fFsetstat(id, h, wattrs{Flags: 1, Size: uint64(op.n)})
	case "close":
		return fClose(id, h)
	case "stat":
		return fIDStr(tStat, id, e.p(op.a))
	case "lstat":
		return fIDStr(tLstat, id, e.p(op.a))
	case "remove":
		return fIDStr(tRemove, id, e.p(op.a))
	case "mkdir":
		return fMkdir(id, e.p(op.a))
	case "rmdir":
		return fIDStr(tRmdir, id, e.p(op.a))
	case "opendir":
		return fIDStr(tOpendir, id, e.p(op.a))
	case "readdir":
		return fIDStr(tReaddir, id, h)
	case "symlink":
		return fTwo(tSymlink, id, op.a, e.p(op.b))
	case "readlink":
		return fIDStr(tReadlink, id, e.p(op.a))
	case "realpath":
		return fIDStr(tRealpath, id, e.p(op.a))
	case "rename":
		return fTwo(tRename, id, e.p(op.a), e.p(op.b))
	case "setstat-perm":
		return fSetstat(id, e.p(op.a), wattrs{Flags: 4, Perm: uint32(op.n)})
	case "posix-rename":
		return fExt(id, "posix-rename@openssh.com", e.p(op.a), e.p(op.b))
	case "hardlink":
		return fExt(id, "hardlink@openssh.com", e.p(op.a), e.p(op.b))
	case "ext-unknown":
		return fExt(id, "nope@example.com", "zz")
	}
	panic("bad op " + op.t)
}

// record runs the valid session once, sequentially, and returns the frames as sent (with the real handles).
func (e *streamEnv) record(t testing.TB, tr *tracer, ops []sOp) [][]byte {
	e.prep(t)
	tr.reset(kv{"kind": "stream-record", "server": e.o.label()})
	s := newSrvSession(t, tr, e.o)
	e.fill(s)
	s.start()
	handles := map[int]string{}
	var frames [][]byte
	for i, op := range ops {
		fr := e.frame(op, uint32(10+i), handles)
		frames = append(frames, fr)
		f, ok := s.call(fr)
		if !ok {
			t.Fatalf("recording: no reply to op %d %s", i, op.t)
		}
		if f.Typ == tHandle {
			handles[i] = f.Handle
		}
	}
	s.endEOF()
	s.waitServe(10 * time.Second)
	s.conn.Close()
	waitFor(5*time.Second, s.finiSeen)
	return frames
}

// splitWellFormed: maximal prefix of complete frames that are well-formed by the independent codec.
// soft: the first non-well-formed frame is only attribute-truncated (the package decodes attributes lazily).
func splitWellFormed(m []byte) (frames [][]byte, rest []byte, soft bool) {
	for {
		if len(m) < 4 {
			return frames, m, false
		}
		n := binary.BigEndian.Uint32(m)
		if n == 0 || n > 256*1024 || uint64(len(m)-4) < uint64(n) {
			return frames, m, false
		}
		f := parseFrame(m[4], m[5:4+n])
		known := f.Typ == tInit || (f.Typ >= tOpen && f.Typ <= tSymlink) || f.Typ == tExtended
		if !known {
			return frames, m, false
		}
		if f.Bad {
			// was it only the attribute block that is short?
			soft = false
			switch f.Typ {
			case tOpen, tSetstat, tFsetstat, tMkdir:
				r := &rb{b: m[5 : 4+n]}
				r.u32()
				r.str()
				if f.Typ == tOpen {
					r.u32()
				}
				r.u32() // attribute flags: the package requires them (except MKDIR whose flags it also reads)
				soft = !r.bad
			}
			return frames, m, soft
		}
		frames = append(frames, m[:4+n])
		m = m[4+n:]
	}
}

// streamFailures counts runs after which Serve had not returned or goroutines of the package were left behind.
var streamFailures int

type runOut struct {
	returned bool
	digest   string
	resps    []string
	calls    []string
	gor      int
	fds      int
	timeout  bool
}

func respSummary(f wframe) string {
	a := f.A
	a.Atime = 0
	data := hexs(f.Data)
	if f.Typ == tExtReply {
		data = "" // statvfs numbers depend on the moment
	}
	var names []string
	for _, n := range f.Names {
		na := n.A
		na.Atime, na.Mtime = 0, 0
		names = append(names, fmt.Sprintf("%s|%v", n.Name, na))
	}
	sort.Strings(names)
	a.Mtime = 0
	msg := ""
	return fmt.Sprintf("%s id=%d code=%d h=%q data=%s attrs=%v names=%v bad=%v %s", f.T(), f.ID, f.Code, f.Handle, data, a, names, f.Bad, msg)
}

// runStream feeds `prefix` frame by frame (awaiting each reply), then `rest`, then EOF.
func (e *streamEnv) runStream(t testing.TB, tr *tracer, run string, prefix [][]byte, rest []byte) runOut {
	e.prep(t)
	tr.emit("RunBegin", kv{"run": run})
	gbase := len(sftpGoroutines()) // goroutines left behind by earlier (already reported) cases
	s := newSrvSession(t, tr, e.o)
	e.fill(s)
	fd0 := len(fdTargets(e.root + "/"))
	s.start()
	var out runOut
	for _, fr := range prefix {
		if _, ok := s.call(fr); !ok {
			out.timeout = true
			break
		}
	}
	if len(rest) > 0 {
		s.feedRaw(rest)
	}
	s.endEOF()
	out.returned = s.waitServe(15 * time.Second)
	// the controller goroutine is not awaited by Serve; wait for it before looking at the responses
	waitFor(5*time.Second, s.finiSeen)
	s.conn.Close()
	var left []string
	waitFor(3*time.Second, func() bool { left = sftpGoroutines(); return len(left) <= gbase })
	out.gor = max(len(left)-gbase, 0)
	if out.gor == 0 {
		left = nil
	}
	if !out.returned || out.gor > 0 {
		streamFailures++
	}
	if e.o.kind == "server" {
		out.fds = len(fdTargets(e.root+"/")) - fd0
	}
	out.digest = e.stateDigest(s)
	s.mu.Lock()
	for _, f := range s.resps {
		out.resps = append(out.resps, respSummary(f))
	}
	s.mu.Unlock()
	if s.v != nil {
		s.v.reportObjects()
	}
	gdump := ""
	if out.gor > 0 {
		gdump = left[0]
		if len(gdump) > 600 {
			gdump = gdump[:600]
		}
	}
	tr.emit("RunEnd", kv{"run": run, "returned": out.returned, "goroutines": out.gor, "fds": out.fds, "nresp": len(out.resps),
		"timeout": out.timeout, "stack": gdump})
	return out
}

type mutation struct {
	desc string
	m    []byte
}

// lengthFields: offsets (within the frame) of every u32 length/count field, by the independent codec's knowledge.
func lengthFields(fr []byte) []int {
	offs := []int{0}
	typ := fr[4]
	body := 5
	str := func(at int) int { // returns offset after the string
		if at+4 > len(fr) {
			return len(fr)
		}
		offs = append(offs, at)
		return at + 4 + int(binary.BigEndian.Uint32(fr[at:]))
	}
	switch typ {
	case tInit:
	case tOpen, tClose, tFstat, tReaddir, tLstat, tStat, tOpendir, tRemove, tRmdir, tRealpath, tReadlink, tMkdir, tSetstat, tFsetstat, tRead:
		str(body + 4)
	case tWrite:
		at := str(body + 4)
		str(at + 8)
	case tRename, tSymlink:
		at := str(body + 4)
		str(at)
	case tExtended:
		at := str(body + 4)
		for at < len(fr) {
			at = str(at)
		}
	}
	return offs
}

func streamMutations(frames [][]byte, thorough bool, seed int64) []mutation {
	var all []byte
	var starts []int
	for _, f := range frames {
		starts = append(starts, len(all))
		all = append(all, f...)
	}
	var muts []mutation
	// (a) cut at byte offsets
	step := 7
	if thorough {
		step = 1
	}
	for c := 0; c <= len(all); c += step {
		muts = append(muts, mutation{fmt.Sprintf("cut@%d", c), append([]byte(nil), all[:c]...)})
	}
	for _, st := range starts { // frame boundaries and their neighbours always
		for _, c := range []int{st, st + 1, st + 3, st + 4, st + 5} {
			if c <= len(all) {
				muts = append(muts, mutation{fmt.Sprintf("cut@%d", c), append([]byte(nil), all[:c]...)})
			}
		}
	}
	// (b) every length field replaced by boundary values
	for i, f := range frames {
		for _, off := range lengthFields(f) {
			n := binary.BigEndian.Uint32(f[off:])
			for _, v := range []uint32{0, 1, n - 1, n + 1, 1<<31 - 1, 1<<32 - 1, 256*1024 + 1} {
				if v == n {
					continue
				}
				m := append([]byte(nil), all...)
				binary.BigEndian.PutUint32(m[starts[i]+off:], v)
				muts = append(muts, mutation{fmt.Sprintf("len f%d@%d=%d", i, off, v), m})
			}
		}
	}
	// (c) type byte replaced
	r := vRand(seed)
	for i := range frames {
		var vals []int
		if thorough || i%4 == int(seed%4) {
			for v := 0; v < 256; v++ {
				vals = append(vals, v)
			}
		} else {
			vals = []int{0, 2, 21, 99, 101, 105, 199, 201, 255, r.Intn(256)}
		}
		for _, v := range vals {
			if byte(v) == frames[i][4] {
				continue
			}
			m := append([]byte(nil), all...)
			m[starts[i]+4] = byte(v)
			muts = append(muts, mutation{fmt.Sprintf("type f%d=%d", i, v), m})
		}
	}
	// (d) garbage appended / inserted
	for k := 0; k < 8; k++ {
		g := make([]byte, 1+r.Intn(40))
		r.Read(g)
		muts = append(muts, mutation{fmt.Sprintf("garbage+%d", len(g)), append(append([]byte(nil), all...), g...)})
		at := starts[r.Intn(len(starts))]
		m := append(append(append([]byte(nil), all[:at]...), g...), all[at:]...)
		muts = append(muts, mutation{fmt.Sprintf("garbage@%d+%d", at, len(g)), m})
	}
	return muts
}

func eqStrings(a, b []string) bool {
	if len(a) != len(b) {
		return false
	}
	for i := range a {
		if a[i] != b[i] {
			return false
		}
	}
	return true
}

func TestVerif_Streams(t *testing.T) {
	tr := newTracer(t)
	skip := envInt("VERIF_SKIP", 0)
	limit := envInt("VERIF_LIMIT", 1<<30)
	caseNo := 0
	names := []string{"files", "dirs", "open"}
	for _, o := range serverMatrix() {
		for bi, bn := range names {
			for _, soft := range []bool{false, true} {
				if !vThorough() && (soft != ((bi+len(o.label()))%2 == 0) || (bi+len(o.label())+int(vSeed()))%3 == 0) {
					continue
				}
				o := o
				o.softClose = soft
				o.quiet = true
				o.quietHandlers = true
				o.hopt = "opvlrk"
				e := &streamEnv{o: o}
				var frames [][]byte
				muts := []mutation(nil)
				for _, mu := range func() []mutation {
					// the recording run is cheap; it is repeated per process so that a restarted process sees the same cases
					frames = e.record(t, tr, baseSessions()[bn])
					muts = streamMutations(frames, vThorough(), vSeed()+int64(bi))
					return muts
				}() {
					caseNo++
					if caseNo <= skip || caseNo > skip+limit {
						continue
					}
					if streamFailures >= 6 {
						continue // Serve not returning / goroutines left behind is on record; every further case costs seconds
					}
					// quick tier: every length-field case, a seeded fifth of the cut / type-byte / garbage cases
					if !vThorough() && !strings.HasPrefix(mu.desc, "len ") && (caseNo+int(vSeed()))%5 != 0 {
						continue
					}
					prefix, rest, softMal := splitWellFormed(mu.m)
					tr.reset(kv{"kind": "stream", "server": o.label(), "soft": soft, "base": bn, "mut": mu.desc, "case": caseNo,
						"nprefix": len(prefix), "nrest": len(rest), "softmalformed": softMal})
					tr.flush() // a crash of this process is attributed to this case
					a := e.runStream(t, tr, "A", prefix, rest)
					b := e.runStream(t, tr, "B", prefix, nil)
					// a packet whose attribute block is shorter than its flags announce is answered with an error status and the
					// stream goes on (attributes are decoded lazily): it must still not be ACTED upon. Run the prefix plus that one
					// frame: the state must be what the prefix alone leaves behind
					softStateEqual := true
					if softMal && len(rest) >= 4 {
						n := int(binary.BigEndian.Uint32(rest))
						if 4+n <= len(rest) {
							a2 := e.runStream(t, tr, "A2", prefix, rest[:4+n])
							softStateEqual = a2.digest == b.digest
						}
					}
					tr.emit("Compare", kv{"stateEqual": a.digest == b.digest, "respEqual": eqStrings(a.resps, b.resps), "nA": len(a.resps), "nB": len(b.resps),
						"softmalformed": softMal, "softStateEqual": softStateEqual, "refComplete": len(b.resps) == len(prefix) && !b.timeout})
				}
			}
		}
	}
	tr.emit("Note", kv{"cases": caseNo})
	t.Logf("stream cases: %d", caseNo)
}
