//go:build verif

package sftp

// Pipelined request programs replayed on the real servers (C02, C14, C18).
//
// A scenario is (program, completion order, end mode).  It comes either from TLC (behaviours of
// PktMgr.tla exported by spec/PktMgrScen.tla) or from the seeded generator below.  All requests are
// written to the server WITHOUT waiting for replies; read/write operations are held at a gate
// (handler ReadAt/WriteAt for RequestServer, the work.begin hook for Server) and released in the
// order the scenario prescribes.

import (
	"bytes"
	"fmt"
	"math/rand"
	"os"
	"path/filepath"
	"testing"
	"time"
)

type pItem struct {
	K string `json:"k"` // R read, W write, C close, M other command
	H int    `json:"h"` // handle slot 1..2
}

type scenario struct {
	Prog []pItem `json:"prog"`
	Rel  []int   `json:"rel"` // completion order of the gated rw ops: 1-based program indices
	End  string  `json:"end"` // "open": wait for all replies; "eof": EOF right after the last request
	Src  string  `json:"src"`
	// HoldMs: the gated reads/writes are held this long before the first one is released (the relative speed of the
	// read/write workers and the command worker is arbitrary: a close must wait however long they take)
	HoldMs int `json:"holdms"`
}

const (
	fileSize  = 4096
	bigSize   = 160 * 1024 // f2 is large, so that reads longer than the server's max payload (32768) can be issued ("B" items)
	wrBase    = 2048
	opStride  = 48
	opLen     = 32
	nSlots    = 2
	graceWait = 15 * time.Millisecond
)

// miscFrame builds the i-th "other command" request. diff=true restricts to requests whose replies are a
// function of the request stream only (no free-space numbers, no access times of files that are being read).
func miscFrame(id uint32, variant int, kind string, root string, handles []string, diff bool) []byte {
	p := func(s string) string {
		if kind == "server" {
			return filepath.Join(root, s)
		}
		return "/" + s
	}
	n := 25
	switch variant % n {
	// short reads (crossing the end of the file) on the read-only and on the read-write handle: the DATA reply carries exactly
	// the bytes read, with and without the allocator
	case 23:
		return fRead(id, handles[len(handles)-1], 1, 64) // the 3-byte file nobody writes: 2 bytes come back
	case 24:
		return fRead(id, handles[len(handles)-1], 0, 300)
	// cross-kind requests on handles of every kind (handles[len-4] read-only file, [len-3] write-only file, [len-2] directory;
	// [len-1] is a read-only handle of the small file "aux"):
	// each must be answered once, in order, with a type that is legal for the REQUEST
	case 17:
		return fIDStr(tReaddir, id, handles[len(handles)-4])
	case 18:
		return fIDStr(tReaddir, id, handles[len(handles)-3])
	case 19:
		return fRead(id, handles[len(handles)-2], 0, 8)
	case 20:
		return fWrite(id, handles[len(handles)-2], 0, []byte("x"))
	case 21:
		return fRead(id, handles[len(handles)-3], 0, 8)
	case 22:
		return fWrite(id, handles[len(handles)-4], 0, []byte("x"))
	case 0:
		return fIDStr(tStat, id, p("aux"))
	case 1:
		return fIDStr(tLstat, id, p("missing"))
	case 2:
		return fMkdir(id, p(fmt.Sprintf("d%d", id)))
	case 3:
		return fIDStr(tRmdir, id, p("missing"))
	case 4:
		return fIDStr(tRemove, id, p("missing"))
	case 5:
		return fIDStr(tRealpath, id, p("d/../aux"))
	case 6:
		return fIDStr(tReadlink, id, p("missing"))
	case 7:
		return fSetstat(id, p("aux"), wattrs{Flags: 4, Perm: 0o600})
	case 8:
		return fTwo(tRename, id, p("missing"), p("missing2"))
	case 9:
		return fTwo(tSymlink, id, "aux", p(fmt.Sprintf("l%d", id)))
	case 10:
		return fExt(id, "unknown@example.com", "x")
	case 11:
		return fIDStr(tReaddir, id, handles[0]) // cross-kind: READDIR on a file handle
	case 12:
		return fOpen(id, p("missing"), 1, wattrs{})
	case 13:
		return fExt(id, "hardlink@openssh.com", p("missing"), p("missing3"))
	case 14:
		return fExt(id, "posix-rename@openssh.com", p("missing"), p("missing4"))
	case 15:
		if diff && kind == "server" {
			return fIDStr(tStat, id, p("d"))
		}
		return fIDStr(tFstat, id, handles[1])
	default:
		if diff {
			return fIDStr(tLstat, id, p("aux"))
		}
		return fExt(id, "statvfs@openssh.com", p("aux"))
	}
}

type pipeResult struct {
	out     []byte
	timeout bool
	nreq    int
	nresp   int
	sess    *srvSession
}

// runPipeline replays one scenario on a fresh server.
// pipeTimeouts counts scenarios in which Serve did not return or replies never came; after four the rest of the sweep is
// skipped (each costs tens of seconds and the violation is on record).
var pipeTimeouts int

func runPipeline(t testing.TB, tr *tracer, o srvOpts, sc scenario, salt int, diff bool) pipeResult {
	if pipeTimeouts >= 4 {
		return pipeResult{}
	}
	var root string
	if o.kind == "server" {
		root = prepRoot(t, "root")
		o.root = root
		writeFixed(t, filepath.Join(root, "f1"), posData(fileSize, 1))
		writeFixed(t, filepath.Join(root, "f2"), posData(bigSize, 2))
		writeFixed(t, filepath.Join(root, "aux"), []byte("aux"))
		os.Mkdir(filepath.Join(root, "d"), 0o755)
		os.Chtimes(filepath.Join(root, "d"), fixedTime.Add(10*time.Second), fixedTime)
	}
	if o.hopt == "" {
		o.hopt = "opvlrk"
	}
	tr.reset(kv{"kind": "pipeline", "server": o.label(), "end": sc.End, "src": sc.Src, "prog": sc.Prog, "rel": sc.Rel})
	s := newSrvSession(t, tr, o)
	if s.v != nil {
		s.v.addFile("/f1", posData(fileSize, 1))
		s.v.addFile("/f2", posData(bigSize, 2))
		s.v.addFile("/aux", []byte("aux"))
		s.v.addDir("/d")
	}
	s.start()
	fpath := func(i int) string {
		if o.kind == "server" {
			return filepath.Join(root, fmt.Sprintf("f%d", i))
		}
		return fmt.Sprintf("/f%d", i)
	}
	res := pipeResult{sess: s}
	if _, ok := s.call(fInit(3)); !ok {
		t.Fatalf("no VERSION reply")
	}
	handles := make([]string, nSlots)
	for i := 0; i < nSlots; i++ {
		f, ok := s.call(fOpen(uint32(10+i), fpath(i+1), 3, wattrs{})) // READ|WRITE
		if !ok || f.Typ != tHandle {
			t.Fatalf("setup open failed: %+v", f)
		}
		handles[i] = f.Handle
	}
	// three more handles for cross-kind requests: a read-only file, a write-only file, a directory
	auxPath := "/aux"
	if o.kind == "server" {
		auxPath = filepath.Join(root, "aux")
	}
	for i, fr := range [][]byte{fOpen(20, fpath(1), 1, wattrs{}), fOpen(21, fpath(1), 2, wattrs{}), fIDStr(tOpendir, 22, func() string {
		if o.kind == "server" {
			return filepath.Join(root, "d")
		}
		return "/d"
	}()), fOpen(23, auxPath, 1, wattrs{})} {
		f, ok := s.call(fr)
		if !ok || f.Typ != tHandle {
			t.Fatalf("setup open %d failed: %+v", i, f)
		}
		handles = append(handles, f.Handle)
	}
	tr.emit("Setup", kv{"handles": handles})
	base := s.order // orders used by the setup

	// build frames
	type op struct {
		frame []byte
		key   string
		order int
		rw    bool
		off   int
		sig   int
	}
	// every third scenario reuses request ids (legal in the protocol: ids are the client's business)
	dupIDs := salt%3 == 0
	ops := make([]op, len(sc.Prog))
	for i, it := range sc.Prog {
		id := uint32(100 + i)
		if dupIDs {
			id = uint32(100 + i%2)
		}
		order := base + i + 1
		slot := it.H
		if slot < 1 || slot > nSlots {
			slot = 1
		}
		h := handles[slot-1]
		switch it.K {
		case "R":
			off := uint64(i * opStride)
			ops[i] = op{fRead(id, h, off, opLen), "R:" + itoa(int(off)), order, true, int(off), int(posData(int(off)+1, byte(slot))[off])}
		case "W":
			off := uint64(wrBase + i*opStride)
			data := bytes.Repeat([]byte{byte(200 + i%50)}, opLen)
			ops[i] = op{fWrite(id, h, off, data), "W:" + itoa(int(off)), order, true, int(off), -1}
		case "L": // a WRITE whose packet is exactly as long as the frame limit allows (262144 bytes after the length field)
			off := uint64(wrBase + i*opStride)
			data := bytes.Repeat([]byte{byte(200 + i%50)}, 256*1024-21-len(h))
			ops[i] = op{fWrite(id, h, off, data), "W:" + itoa(int(off)), order, true, int(off), -1}
		case "B": // read longer than the server's maximum payload, on the large file (slot 2)
			off := uint64(8192 + i*opStride)
			n := []uint32{40000, 65536, 32769, 200000}[i%4]
			ops[i] = op{fRead(id, handles[1], off, n), "R:" + itoa(int(off)), order, true, int(off), int(posData(int(off)+1, 2)[off])}
		case "C":
			ops[i] = op{fClose(id, h), "", order, false, -1, -1}
		default:
			ops[i] = op{miscFrame(id, salt+i*7, o.kind, root, handles, diff), "", order, false, -1, -1}
		}
		if ops[i].rw && o.kind == "server" {
			ops[i].key = "o:" + itoa(order)
		}
	}
	// hold every rw op, then feed everything without waiting
	for _, p := range ops {
		if p.rw {
			s.gate.hold(p.key)
		}
	}
	for i, p := range ops {
		s.mu.Lock()
		s.mu.Unlock()
		f := parseFrame(p.frame[4], p.frame[5:])
		s.mu.Lock()
		s.order++
		s.reqs = append(s.reqs, f)
		s.mu.Unlock()
		tr.emit("Req", kv{"o": p.order, "id": int(f.ID), "typ": f.T(), "h": f.Handle, "wf": true, "k": map[string]string{"L": "W"}[sc.Prog[i].K] + map[bool]string{true: "", false: sc.Prog[i].K}[sc.Prog[i].K == "L"], "slot": sc.Prog[i].H, "off": p.off, "sig": p.sig})
		s.c2s.Write(p.frame)
	}
	if sc.End == "eof" {
		s.endEOF()
	}
	if sc.HoldMs > 0 {
		time.Sleep(time.Duration(sc.HoldMs) * time.Millisecond)
	}
	// release in the prescribed order
	for _, idx := range sc.Rel {
		if idx < 1 || idx > len(ops) || !ops[idx-1].rw {
			continue
		}
		p := ops[idx-1]
		waitFor(graceWait, func() bool { return s.gate.isWaiting(p.key) })
		s.gate.release(p.key)
		waitFor(graceWait, func() bool { return s.isReady(p.order) })
	}
	s.gate.releaseAll()
	res.nreq = base + len(ops)
	if sc.End == "eof" {
		if !s.waitServe(20 * time.Second) {
			res.timeout = true
		}
		// the controller goroutine is not awaited by Serve: wait until it has left (pm.fini) before judging
		if !waitFor(10*time.Second, s.finiSeen) {
			res.timeout = true
		}
	} else {
		if !s.waitResps(res.nreq, 20*time.Second) {
			res.timeout = true
		}
	}
	res.nresp = s.nResps()
	// the controller writes the response first and releases the pages afterwards: give it time to do so
	if sc.End == "open" {
		waitFor(2*time.Second, func() bool { return s.usedPages() <= 1 })
	}
	used := s.usedPages()
	tr.emit("End", kv{"kind": sc.End, "nreq": res.nreq, "nresp": res.nresp, "timeout": res.timeout, "used": used})
	if res.timeout {
		pipeTimeouts++
	}
	// tear down
	s.gate.releaseAll()
	s.endEOF()
	s.waitServe(10 * time.Second)
	s.conn.Close()
	waitFor(5*time.Second, s.finiSeen)
	if s.v != nil {
		s.v.reportObjects()
	}
	res.out = s.outBytes()
	return res
}

// genScenario: seeded generator (complements the TLC-exported scenarios with deeper pipelines).
func genScenario(r *rand.Rand, maxLen int) scenario {
	n := 1 + r.Intn(maxLen)
	sc := scenario{Src: "gen"}
	closed := map[int]bool{}
	for i := 0; i < n; i++ {
		h := 1 + r.Intn(nSlots)
		var k string
		switch x := r.Intn(10); {
		case x < 1:
			k = "B"
		case x < 3:
			k = "R"
		case x < 6:
			k = "W"
		case x < 8:
			k = "M"
		default:
			k = "C"
			if closed[h] && r.Intn(3) > 0 {
				k = "W"
			}
			closed[h] = true
		}
		sc.Prog = append(sc.Prog, pItem{k, h})
	}
	var rw []int
	for i, it := range sc.Prog {
		if it.K == "R" || it.K == "W" || it.K == "B" {
			rw = append(rw, i+1)
		}
	}
	r.Shuffle(len(rw), func(i, j int) { rw[i], rw[j] = rw[j], rw[i] })
	sc.Rel = rw
	if r.Intn(4) == 0 {
		sc.End = "eof"
	} else {
		sc.End = "open"
	}
	return sc
}

func pipelineScenarios(t testing.TB, nGen, maxLen int) []scenario {
	var scs []scenario
	loadScenarios(t, "VERIF_SCEN", &scs)
	r := vRand(2)
	for i := 0; i < nGen; i++ {
		scs = append(scs, genScenario(r, maxLen))
	}
	// the attack shapes of the ablation counterexamples: writes held, close behind them
	for depth := 1; depth <= 16; depth *= 2 {
		for _, end := range []string{"open", "eof"} {
			sc := scenario{Src: "attack", End: end}
			for i := 0; i < depth; i++ {
				k := "W"
				if i%3 == 2 {
					k = "R"
				}
				sc.Prog = append(sc.Prog, pItem{k, 1})
			}
			sc.Prog = append(sc.Prog, pItem{"C", 1}, pItem{"M", 1}, pItem{"W", 2}, pItem{"C", 2})
			for i := depth; i >= 1; i-- {
				sc.Rel = append(sc.Rel, i)
			}
			sc.Rel = append(sc.Rel, depth+3)
			scs = append(scs, sc)
		}
	}
	// very slow reads/writes in front of a pipelined close
	holds := []int{3500}
	if vThorough() {
		holds = []int{3500, 11000}
	}
	for _, h := range holds {
		scs = append(scs, scenario{Src: "slow", End: "open", HoldMs: h, Prog: []pItem{{"W", 1}, {"R", 1}, {"C", 1}, {"M", 1}, {"W", 2}}, Rel: []int{2, 1, 5}})
	}
	// the largest legal frame: a WRITE of exactly 256 KiB (packet length field = 262144) in the middle of a pipeline
	for _, end := range []string{"open", "eof"} {
		scs = append(scs, scenario{Src: "limit", End: end, Prog: []pItem{{"W", 1}, {"L", 1}, {"M", 1}, {"R", 2}, {"L", 2}, {"M", 2}, {"C", 1}}, Rel: []int{2, 1, 4, 5}})
	}
	return scs
}

func serverMatrix() []srvOpts {
	return []srvOpts{
		{kind: "rs"}, {kind: "rs", alloc: true},
		{kind: "server"}, {kind: "server", alloc: true},
	}
}

// TestVerif_Pipeline records traces for C02 / C14 (and the allocator hook events for C18).
func TestVerif_Pipeline(t *testing.T) {
	tr := newTracer(t)
	nGen, maxLen := 40, 12
	if vThorough() {
		nGen, maxLen = 600, 24
	}
	scs := pipelineScenarios(t, nGen, maxLen)
	n := 0
	for i, sc := range scs {
		for j, o := range serverMatrix() {
			// every scenario runs on all four server configurations in thorough; round-robin otherwise
			if !vThorough() && sc.Src != "attack" && (i+j)%2 != 0 {
				continue
			}
			o.softClose = (i+j)%3 == 0
			runPipeline(t, tr, o, sc, int(vSeed())+i, false)
			n++
		}
	}
	t.Logf("pipeline scenarios run: %d", n)
}

// diffPair runs one scenario with the allocator off and on and logs whether the response streams agree.
func diffPair(t testing.TB, tr *tracer, kind string, sc scenario, salt int) {
	// The differential needs programs whose replies are a function of the request stream alone: a read/write that
	// ARRIVES after the close of its handle races with that close (either outcome is legal), so it is moved to the
	// other handle, or turned into a command when both are closed.
	closed := map[int]bool{}
	prog := make([]pItem, len(sc.Prog))
	for i, it := range sc.Prog {
		if it.H < 1 || it.H > nSlots {
			it.H = 1
		}
		switch it.K {
		case "C":
			closed[it.H] = true
		case "B":
			if closed[2] {
				it.K = "M"
			}
		case "R", "W", "L":
			if closed[it.H] {
				if other := 3 - it.H; !closed[other] {
					it.H = other
				} else {
					it.K = "M"
				}
			}
		}
		prog[i] = it
	}
	sc.Prog = prog
	if pipeTimeouts >= 4 {
		return
	}
	a := runPipeline(t, tr, srvOpts{kind: kind}, sc, salt, true)
	b := runPipeline(t, tr, srvOpts{kind: kind, alloc: true}, sc, salt, true)
	eq := bytes.Equal(a.out, b.out)
	first := -1
	m := min(len(a.out), len(b.out))
	if !eq {
		first = m
		for k := 0; k < m; k++ {
			if a.out[k] != b.out[k] {
				first = k
				break
			}
		}
	}
	tr.emit("Diff", kv{"equal": eq, "prefix": bytes.Equal(a.out[:m], b.out[:m]), "la": len(a.out), "lb": len(b.out), "first": first,
		"complete": !a.timeout && !b.timeout && a.nresp == a.nreq && b.nresp == b.nreq})
}

// TestVerif_AllocDiff: same scenario and forced completion order with the allocator off and on;
// the two response byte streams must be identical (C18).
func TestVerif_AllocDiff(t *testing.T) {
	tr := newTracer(t)
	nGen, maxLen := 30, 12
	if vThorough() {
		nGen, maxLen = 400, 32
	}
	scs := pipelineScenarios(t, nGen, maxLen)
	for i, sc := range scs {
		for _, kind := range []string{"rs", "server"} {
			if !vThorough() && sc.Src != "attack" && (i%2 == 0) != (kind == "rs") {
				continue
			}
			diffPair(t, tr, kind, sc, int(vSeed())+i)
		}
	}
}

// TestVerif_AllocStress: the critical order for a premature page release - the first request is held, so the
// responses of the reads behind it wait in the outgoing queue while further requests are received and served
// (their receive buffers would overwrite a page that was handed back too early).
func TestVerif_AllocStress(t *testing.T) {
	tr := newTracer(t)
	depths := []int{1, 2, 5, 9}
	if vThorough() {
		depths = []int{1, 2, 3, 5, 8, 9, 16, 24, 32}
	}
	for _, k := range depths {
		for _, tail := range []int{3, 12} {
			for _, end := range []string{"open", "eof"} {
				sc := scenario{Src: "stress", End: end}
				sc.Prog = append(sc.Prog, pItem{"W", 1})
				for i := 0; i < k; i++ {
					sc.Prog = append(sc.Prog, pItem{"R", 1 + i%2})
				}
				for i := 0; i < tail; i++ {
					kk := "W"
					if i%3 == 1 {
						kk = "M"
					}
					if i%4 == 2 {
						kk = "B"
					}
					sc.Prog = append(sc.Prog, pItem{kk, 2})
				}
				for i := 2; i <= k+1; i++ {
					sc.Rel = append(sc.Rel, i)
				}
				for i := k + 2; i <= len(sc.Prog); i++ {
					sc.Rel = append(sc.Rel, i)
				}
				sc.Rel = append(sc.Rel, 1)
				for _, kind := range []string{"rs", "server"} {
					diffPair(t, tr, kind, sc, int(vSeed())+k)
				}
			}
		}
	}
}
