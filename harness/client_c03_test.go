//go:build verif

package sftp

// C03: several goroutines share one Client (and one File); the peer holds replies until a batch is
// outstanding and answers in a prescribed permutation.  Every reply is derived from its request, so each
// caller can be checked to have received the reply to its own request.

import (
	"bytes"
	"context"
	"fmt"
	"io"
	"os"
	"sync"
	"testing"
	"time"
)

type wregion struct {
	off  int64
	data []byte
}

type callLog struct {
	tr    *tracer
	g     int
	n     int
	wrote []wregion
}

func (c *callLog) call(op, arg string) {
	c.n++
	c.tr.emit("Call", kv{"g": c.g, "n": c.n, "op": op, "arg": arg})
}

func (c *callLog) ret(op, got, want string, err error, extra kv) {
	f := kv{"g": c.g, "n": c.n, "op": op, "got": got, "want": want, "err": errStr(err), "noerr": true}
	for k, v := range extra {
		f[k] = v
	}
	c.tr.emit("Ret", f)
}

// doOp performs one client operation whose reply is a function of its argument.
func doOp(cl *Client, f *File, fh string, pr *peer, lg *callLog, kind int, arg string, salt int) {
	switch kind % 11 {
	case 9: // single-packet WriteAt (header and payload are two writes) at a region unique to this call
		off := int64(4096 + (salt%1500)*24)
		data := bytes.Repeat([]byte{byte(1 + salt%250)}, 24)
		lg.call("WriteAt", fmt.Sprint(off))
		n, err := f.WriteAt(data, off)
		lg.ret("WriteAt", fmt.Sprint(n), "24", err, kv{"noerr": true})
		lg.wrote = append(lg.wrote, wregion{off, data})
		return
	case 10: // a listing whose context is cancelled while OPENDIR is outstanding; the peer answers it later
		ctx, cancel := context.WithCancel(context.Background())
		lg.call("ReadDirCancelled", arg)
		go func() {
			waitFor(2*time.Second, func() bool { return pr.nHeld() > 0 })
			cancel()
		}()
		_, err := cl.ReadDirContext(ctx, arg)
		// either outcome is fine for THIS call (cancelled, or answered first); it must not disturb the others
		lg.ret("ReadDirCancelled", "", "", nil, kv{"cancelerr": errStr(err)})
		return
	case 0:
		lg.call("Stat", arg)
		fi, err := cl.Stat(arg)
		got := ""
		if err == nil {
			got = fmt.Sprint(fi.Size())
		}
		lg.ret("Stat", got, fmt.Sprint(peerStatSize(arg)), err, nil)
	case 1:
		lg.call("Lstat", arg)
		fi, err := cl.Lstat(arg)
		got := ""
		if err == nil {
			got = fmt.Sprint(fi.Size())
		}
		lg.ret("Lstat", got, fmt.Sprint(peerStatSize(arg)), err, nil)
	case 2:
		lg.call("ReadLink", arg)
		s, err := cl.ReadLink(arg)
		lg.ret("ReadLink", s, peerLink(arg), err, nil)
	case 3:
		lg.call("RealPath", arg)
		s, err := cl.RealPath(arg)
		lg.ret("RealPath", s, peerReal(arg), err, nil)
	case 4:
		lg.call("Open", arg)
		nf, err := cl.Open(arg)
		got := ""
		if err == nil {
			got = nf.handle
		}
		lg.ret("Open", got, peerHandle(arg), err, nil)
		if err == nil {
			lg.call("Close", arg)
			err = nf.Close()
			lg.ret("Close", "", "", err, nil)
		}
	case 5:
		lg.call("StatVFS", arg)
		st, err := cl.StatVFS(arg)
		got := ""
		if err == nil {
			got = fmt.Sprint(st.Frsize)
		}
		lg.ret("StatVFS", got, fmt.Sprint(uint64(hash32(arg)%1000)+1), err, nil)
	case 6: // single-packet ReadAt on the shared file at an offset unique to this call
		off := int64((salt * 37) % 3000)
		buf := make([]byte, 24)
		lg.call("ReadAt", fmt.Sprint(off))
		n, err := f.ReadAt(buf, off)
		lg.ret("ReadAt", hexs(buf[:n]), hexs(posData(4096, byte(hash32(fh)%200))[off:off+24]), err, nil)
	case 7: // multi-chunk ReadAt (several requests in flight from one call)
		off := int64((salt * 53) % 2000)
		buf := make([]byte, 700)
		lg.call("ReadAtBig", fmt.Sprint(off))
		n, err := f.ReadAt(buf, off)
		lg.ret("ReadAtBig", hexs(buf[:n]), hexs(posData(4096, byte(hash32(fh)%200))[off:off+700]), err, nil)
	case 8: // directory listing: OPENDIR, READDIR x3, CLOSE
		lg.call("ReadDir", arg)
		ents, err := cl.ReadDir(arg)
		got := ""
		for _, e := range ents {
			got += e.Name() + ","
		}
		want := ""
		for i := 0; i < 6; i++ {
			want += fmt.Sprintf("e%d-%08x,", i, hash32(peerDirHandle(arg)))
		}
		lg.ret("ReadDir", got, want, err, nil)
	}
}

// idStress binds the model action NextIdAtomic (ClientConn.tla): many goroutines draw request ids from one Client at
// full speed; the ids drawn must be pairwise distinct (the window of a non-atomic draw is a few nanoseconds wide, which
// whole operations over a transport hardly ever hit).
func idStress(t testing.TB, tr *tracer) {
	tr.reset(kv{"kind": "idstress"})
	pr := newPeer(t, tr)
	pr.quiet = true
	cl, err := pr.client()
	if err != nil {
		t.Fatalf("client: %v", err)
	}
	const G, N = 16, 60000
	got := make([][]uint32, G)
	var wg sync.WaitGroup
	start := make(chan struct{})
	for g := 0; g < G; g++ {
		wg.Add(1)
		go func(g int) {
			defer wg.Done()
			ids := make([]uint32, N)
			<-start
			for i := range ids {
				ids[i] = cl.nextID()
			}
			got[g] = ids
		}(g)
	}
	close(start)
	wg.Wait()
	seen := make(map[uint32]struct{}, G*N)
	for _, ids := range got {
		for _, id := range ids {
			seen[id] = struct{}{}
		}
	}
	tr.emit("IdStress", kv{"goroutines": G, "draws": G * N, "distinct": len(seen)})
	cl.Close()
}

// c03Hangs counts histories in which a call did not return.
var c03Hangs int

// closeDuringWrite: Client.Close (and the receiver's own close of the writer) must not cut a request in two. Goroutines
// keep sending WRITE requests (header and payload are separate writes, the gap is stretched); another goroutine closes the
// Client. What the peer has received must still be a sequence of whole frames (the peer logs PBad otherwise).
func closeDuringWrite(t testing.TB, tr *tracer, round int) {
	tr.reset(kv{"kind": "closewrite", "round": round})
	pr := newPeer(t, tr)
	pr.c2s.afterWrite = func(b []byte) {
		if len(b) >= 4 && int(uint32(b[0])<<24|uint32(b[1])<<16|uint32(b[2])<<8|uint32(b[3])) > len(b)-4 {
			time.Sleep(150 * time.Microsecond) // a header whose payload follows in a second write
		}
	}
	cl, err := pr.client(MaxPacketChecked(64))
	if err != nil {
		t.Fatalf("client: %v", err)
	}
	f, err := cl.OpenFile("/cw", os.O_RDWR)
	if err != nil {
		t.Fatalf("open: %v", err)
	}
	var wg sync.WaitGroup
	for g := 0; g < 3; g++ {
		wg.Add(1)
		go func(g int) {
			defer wg.Done()
			data := bytes.Repeat([]byte{byte('a' + g)}, 40)
			for k := 0; k < 200; k++ {
				if _, err := f.WriteAt(data, int64(64*g)); err != nil {
					return
				}
			}
		}(g)
	}
	time.Sleep(time.Duration(300+137*round%900) * time.Microsecond)
	done := make(chan struct{})
	go func() { cl.Close(); close(done) }()
	select {
	case <-done:
	case <-time.After(10 * time.Second):
	}
	wc := make(chan struct{})
	go func() { wg.Wait(); close(wc) }()
	select {
	case <-wc:
	case <-time.After(10 * time.Second):
		pr.c2s.CloseRead()
		pr.s2c.CloseWrite(io.ErrClosedPipe)
	}
	// let the peer's reader reach the end of what the client wrote
	select {
	case <-pr.readerDone:
	case <-time.After(3 * time.Second):
	}
}

func TestVerif_OwnReply(t *testing.T) {
	tr := newTracer(t)
	idStress(t, tr)
	for round := 0; round < 40; round++ {
		closeDuringWrite(t, tr, round)
	}
	ids := &chanIDs{}
	installHook(t, clientHook(tr, ids, nil))
	nHist := 120
	if vThorough() {
		nHist = 3000
	}
	r := vRand(3)
	perms := map[int][][]int{2: allPerms(2), 3: allPerms(3), 4: allPerms(4)}
	for h := 0; h < nHist; h++ {
		G := 2 + r.Intn(7)
		R := 2 + r.Intn(4)
		batch := 2 + h%3
		mp := []int{32768, 100, 64, 257}[h%4]
		conc := []int{64, 1, 2, 3}[(h/4)%4]
		tr.reset(kv{"kind": "ownreply", "G": G, "R": R, "batch": batch, "maxpacket": mp, "conc": conc})
		gbase := len(sftpGoroutines()) // goroutines left behind by earlier (already reported) histories
		pr := newPeer(t, tr)
		pr.hold = true
		pr.c2s.afterWrite = func(b []byte) {
			// a chunk that is shorter than the frame it announces is a header whose payload follows in a second write
			if len(b) >= 4 && int(uint32(b[0])<<24|uint32(b[1])<<16|uint32(b[2])<<8|uint32(b[3])) > len(b)-4 {
				time.Sleep(100 * time.Microsecond)
			}
		}
		cl, err := pr.client(MaxPacketChecked(mp), MaxConcurrentRequestsPerFile(conc))
		if err != nil {
			t.Fatalf("client: %v", err)
		}
		stop := make(chan struct{})
		pi := h
		go pr.pump(batch, 1500*time.Microsecond, func(n int) []int {
			pi++
			if ps, ok := perms[n]; ok {
				return ps[pi%len(ps)]
			}
			if n == 1 {
				return []int{0}
			}
			o := permIdentity(n)
			rr := vRand(int64(pi))
			rr.Shuffle(n, func(i, j int) { o[i], o[j] = o[j], o[i] })
			return o
		}, stop)
		shared, err := cl.Open("/shared")
		if err != nil {
			t.Fatalf("open shared: %v", err)
		}
		var wg sync.WaitGroup
		var wmu sync.Mutex
		var wrote []wregion
		for g := 1; g <= G; g++ {
			wg.Add(1)
			go func(g int) {
				defer wg.Done()
				lg := &callLog{tr: tr, g: g}
				defer func() {
					wmu.Lock()
					wrote = append(wrote, lg.wrote...)
					wmu.Unlock()
				}()
				for k := 0; k < R; k++ {
					kind := (h + g*3 + k*5) % 11
					doOp(cl, shared, shared.handle, pr, lg, kind, fmt.Sprintf("/p/h%d/g%d/k%d", h, g, k), h*100+g*10+k)
				}
			}(g)
		}
		done := make(chan struct{})
		go func() { wg.Wait(); close(done) }()
		hung := 0
		select {
		case <-done:
		case <-time.After(30 * time.Second):
			hung = 1
		}
		close(stop)
		pr.setHold(false)
		pr.answerAll()
		// what the peer stored must be what the callers wrote (each region belongs to one call)
		if hung == 0 {
			content := pr.fileCopy(shared.handle)
			lgv := &callLog{tr: tr, g: 0}
			for _, w := range wrote {
				lgv.call("VerifyWrite", fmt.Sprint(w.off))
				got := ""
				if int(w.off)+len(w.data) <= len(content) {
					got = hexs(content[w.off : int(w.off)+len(w.data)])
				}
				lgv.ret("VerifyWrite", got, hexs(w.data), nil, nil)
			}
		}
		cerr := make(chan error, 1)
		go func() { shared.Close(); cerr <- cl.Close() }()
		closeRet := true
		select {
		case <-cerr:
		case <-time.After(10 * time.Second):
			closeRet = false
		}
		var left []string
		waitFor(3*time.Second, func() bool { left = sftpGoroutines(); return len(left) <= gbase })
		tr.emit("End", kv{"kind": "ownreply", "hung": hung, "waitret": true, "closeret": closeRet, "goroutines": max(len(left)-gbase, 0)})
		if hung != 0 || !closeRet {
			pr.c2s.CloseRead()
			pr.s2c.CloseWrite(io.ErrClosedPipe)
			c03Hangs++
			if c03Hangs >= 3 {
				tr.emit("Note", kv{"aborted": "three histories with calls that did not return; the rest of the sweep is skipped"})
				break
			}
		}
	}
	_ = bytes.Equal
	_ = os.ErrClosed
}
