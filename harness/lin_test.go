//go:build verif

package sftp

// C15: concurrent histories of single-packet ReadAt / WriteAt / Stat by several goroutines over one Client,
// on one or two handles of the same file whose size never changes.  Every write fills whole blocks with a
// value unique in the history; every read reports the value found in each block (-1 for a torn block).
// TLC (spec/LinFile.tla) searches for a linearization.

import (
	"bytes"
	"io"
	"math/rand"
	"os"
	"path/filepath"
	"sync"
	"sync/atomic"
	"testing"
	"time"
)

const linBlocks = 16

func blockVals(buf []byte, bs int) []int {
	out := make([]int, 0, len(buf)/bs)
	for i := 0; i+bs <= len(buf); i += bs {
		v := int(buf[i])
		for _, c := range buf[i : i+bs] {
			if int(c) != v {
				v = -1
				break
			}
		}
		out = append(out, v)
	}
	return out
}

func runLinHistory(t testing.TB, tr *tracer, backend string, bs int, G, R int, seed int64) {
	r := rand.New(rand.NewSource(seed))
	tr.reset(kv{"kind": "lin", "backend": backend, "bs": bs, "G": G, "R": R})
	so := srvOpts{quiet: true, quietHandlers: true, hopt: "opvlrk"}
	root := ""
	switch backend {
	case "rs":
		so.kind = "rs"
	case "rs+alloc":
		so.kind, so.alloc = "rs", true
	case "server":
		so.kind = "server"
	case "server+alloc":
		so.kind, so.alloc = "server", true
	}
	content := make([]byte, linBlocks*bs)
	if so.kind == "server" {
		root = prepRoot(t, "lroot")
		os.WriteFile(filepath.Join(root, "f"), content, 0o644)
	}
	sess := newSrvSession(t, tr, so)
	sess.s2c.onWrite = nil
	if seed%3 == 0 {
		// a slow transport: every Write of the client takes a moment, which stretches the gap between the header and the
		// payload of a WRITE packet and lets the requests of other goroutines queue up behind the connection's mutex
		sess.c2s.afterWrite = func(b []byte) { time.Sleep(15 * time.Microsecond) }
	}
	if sess.v != nil {
		sess.v.addFile("/f", content)
		// perturb the schedule of the server's worker pool
		var cnt int64
		sess.v.delay = func() {
			if atomic.AddInt64(&cnt, 1)%3 == 0 {
				time.Sleep(time.Duration(30+seed%50) * time.Microsecond)
			}
		}
	}
	if sess.srv != nil {
		// perturb the schedule of the os-backed server's worker pool at the work.begin hook
		var cnt int64
		installHook(t, func(point string, a, b uint64) {
			if point == "work.begin" && atomic.AddInt64(&cnt, 1)%3 == 0 {
				time.Sleep(time.Duration(20+seed%60) * time.Microsecond)
			}
		})
	}
	go func() {
		if sess.srv != nil {
			sess.srv.Serve()
		} else {
			sess.rs.Serve()
		}
		sess.conn.Close()
		close(sess.serveDone)
	}()
	cl, err := NewClientPipe(sess.s2c, pipeWriteCloser{p: sess.c2s})
	if err != nil {
		t.Fatal(err)
	}
	path := "/f"
	if root != "" {
		path = filepath.Join(root, "f")
	}
	var files []*File
	for i := 0; i < 1+int(seed%2); i++ {
		f, err := cl.OpenFile(path, os.O_RDWR)
		if err != nil {
			t.Fatal(err)
		}
		files = append(files, f)
	}
	maxK := 4
	if so.kind == "server" {
		maxK = 1 // only an aligned single block is atomic in the kernel
	}
	if bs*8 == 32768 && so.kind == "rs" {
		maxK = 8
	}
	var wg sync.WaitGroup
	var vcount int64
	type plan struct {
		op   string
		b, k int
	}
	pbudget := linBlocks / 2 // blocks that position-based Reads may consume per handle (any Read may land on either handle)
	for g := 1; g <= G; g++ {
		var ops []plan
		for i := 0; i < R; i++ {
			k := 1 + r.Intn(maxK)
			if maxK == 8 && r.Intn(2) == 0 {
				k = 8 // a read/write of exactly one maximum-size packet
			}
			b := r.Intn(linBlocks - k + 1)
			if r.Intn(3) == 0 {
				b = 0
			}
			op := []string{"R", "W", "R", "W", "S", "P"}[r.Intn(6)]
			if op == "P" {
				// a position-based Read of one or two blocks: every handle has a budget so that all of them stay inside the extent
				k = 1 + r.Intn(2)
				if pbudget < k {
					op = "R"
					if b > linBlocks-k {
						b = linBlocks - k
					}
				} else {
					pbudget -= k
				}
			}
			ops = append(ops, plan{op, b, k})
		}
		wg.Add(1)
		go func(g int, ops []plan) {
			defer wg.Done()
			for n, p := range ops {
				hd := (g + n) % len(files)
				f := files[hd]
				switch p.op {
				case "W":
					v := int(atomic.AddInt64(&vcount, 1))
					buf := bytes.Repeat([]byte{byte(v)}, p.k*bs)
					tr.emit("LCall", kv{"g": g, "n": n, "op": "W", "b": p.b, "k": p.k, "v": v, "hd": hd})
					_, err := f.WriteAt(buf, int64(p.b*bs))
					tr.emit("LRet", kv{"g": g, "n": n, "res": []int{}, "err": errStr(err)})
				case "R":
					buf := make([]byte, p.k*bs)
					tr.emit("LCall", kv{"g": g, "n": n, "op": "R", "b": p.b, "k": p.k, "v": 0, "hd": hd})
					nn, err := f.ReadAt(buf, int64(p.b*bs))
					res := blockVals(buf[:nn], bs)
					for len(res) < p.k {
						res = append(res, -2) // short read: cannot happen inside the extent
					}
					tr.emit("LRet", kv{"g": g, "n": n, "res": res, "err": errStr(err)})
				case "P":
					buf := make([]byte, p.k*bs)
					tr.emit("LCall", kv{"g": g, "n": n, "op": "P", "b": 0, "k": p.k, "v": 0, "hd": hd})
					nn, err := f.Read(buf)
					res := blockVals(buf[:nn], bs)
					for len(res) < p.k {
						res = append(res, -2)
					}
					tr.emit("LRet", kv{"g": g, "n": n, "res": res, "err": errStr(err)})
				default:
					tr.emit("LCall", kv{"g": g, "n": n, "op": "S", "b": 0, "k": 0, "v": 0, "hd": hd})
					fi, err := f.Stat()
					sz := -1
					if err == nil {
						sz = int(fi.Size()) / bs
					}
					tr.emit("LRet", kv{"g": g, "n": n, "res": []int{sz}, "err": errStr(err)})
				}
			}
		}(g, ops)
	}
	all := make(chan struct{})
	go func() { wg.Wait(); close(all) }()
	select {
	case <-all:
	case <-time.After(20 * time.Second):
		// an operation that never returns cannot be linearized: the search stops at this line
		tr.emit("LHang", kv{"after_s": 20})
		linHangs++
		sess.conn.Close()
		sess.c2s.CloseRead()
		sess.s2c.CloseWrite(io.ErrClosedPipe)
		return
	}
	for _, f := range files {
		f.Close()
	}
	cl.Close()
	sess.waitServe(5 * time.Second)
}

// linHangs counts histories with an operation that did not return; after three the sweep stops (each costs a watchdog period).
var linHangs int

func TestVerif_Lin(t *testing.T) {
	tr := newTracer(t)
	// EndToEnd.tla's mechanism RouteById rests on the ids of concurrent requests being distinct: bound by a direct stress of the id draw
	idStress(t, tr)
	n := 240
	if vThorough() {
		n = 8000
	}
	r := vRand(15)
	backends := []string{"rs", "rs+alloc", "server", "server+alloc"}
	for i := 0; i < n; i++ {
		be := backends[i%4]
		bs := 8
		if i%3 == 0 && (be == "rs" || be == "rs+alloc") {
			bs = 4096
		}
		G := 2 + r.Intn(3)
		R := 3 + r.Intn(3)
		if linHangs >= 3 {
			break
		}
		runLinHistory(t, tr, be, bs, G, R, vSeed()*1009+int64(i))
	}
}
