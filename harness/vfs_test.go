//go:build verif

package sftp

// Instrumented in-memory Handlers for RequestServer.  Every handler call is recorded in the
// trace at the moment it happens; ReadAt/WriteAt/ListAt can be gated (blocked until released by
// the replayer) so that the harness controls the order in which server workers finish.

import (
	"context"
	"fmt"
	"io"
	"os"
	"path"
	"sort"
	"sync"
	"sync/atomic"
	"syscall"
	"time"
)

// ---------------------------------------------------------------- gates

// gateCtl lets a replayer hold named operations until it releases them.
type gateCtl struct {
	mu      sync.Mutex
	held    map[string]chan struct{} // key -> closed when released
	waiting map[string]bool          // key -> an operation is blocked on it right now
	arrived map[string]int           // key -> number of operations that reached the gate
	holdAll func(key string) bool    // optional predicate: hold keys not explicitly registered
}

func newGateCtl() *gateCtl {
	return &gateCtl{held: map[string]chan struct{}{}, waiting: map[string]bool{}, arrived: map[string]int{}}
}

func (g *gateCtl) hold(key string) {
	g.mu.Lock()
	if _, ok := g.held[key]; !ok {
		g.held[key] = make(chan struct{})
	}
	g.mu.Unlock()
}

func (g *gateCtl) release(key string) {
	g.mu.Lock()
	if ch, ok := g.held[key]; ok {
		select {
		case <-ch:
		default:
			close(ch)
		}
	} else {
		ch := make(chan struct{})
		close(ch)
		g.held[key] = ch
	}
	g.mu.Unlock()
}

func (g *gateCtl) releaseAll() {
	g.mu.Lock()
	g.holdAll = nil
	for _, ch := range g.held {
		select {
		case <-ch:
		default:
			close(ch)
		}
	}
	g.mu.Unlock()
}

// pass is called by the instrumented operation; it blocks while key is held.
func (g *gateCtl) pass(key string) {
	if g == nil {
		return
	}
	g.mu.Lock()
	g.arrived[key]++
	ch, ok := g.held[key]
	if !ok && g.holdAll != nil && g.holdAll(key) {
		ch = make(chan struct{})
		g.held[key] = ch
		ok = true
	}
	if !ok {
		g.mu.Unlock()
		return
	}
	g.waiting[key] = true
	g.mu.Unlock()
	<-ch
	g.mu.Lock()
	delete(g.waiting, key)
	g.mu.Unlock()
}

func (g *gateCtl) isWaiting(key string) bool {
	g.mu.Lock()
	defer g.mu.Unlock()
	return g.waiting[key]
}

func (g *gateCtl) nWaiting() int {
	g.mu.Lock()
	defer g.mu.Unlock()
	return len(g.waiting)
}

func (g *gateCtl) hasArrived(key string) bool {
	g.mu.Lock()
	defer g.mu.Unlock()
	return g.arrived[key] > 0
}

// ---------------------------------------------------------------- in-memory tree

type vnode struct {
	name  string
	isDir bool
	link  string // symlink target ("" = not a symlink)
	data  []byte
	mode  os.FileMode
	mtime time.Time
	uid   uint32
	gid   uint32
	// own: how the entry reports its owner to the server
	//   0 not at all (Sys() is nothing the package knows)            -> no owner on the wire
	//   1 through FileInfoUidGid, Sys() nil                            -> uid/gid
	//   2 through FileInfoUidGid, AND Sys() is a *syscall.Stat_t with OTHER ids (a wrapper remapping the ids of a real
	//     file): the ids of FileInfoUidGid are what the handler reports                                -> uid/gid
	//   3 through Sys().(*syscall.Stat_t) only (what package os returns) -> uid/gid
	own int
	// ext: extended attributes the entry reports through FileInfoExtendedData (none if empty)
	ext []StatExtended
}

// Extended implements FileInfoExtendedData.
func (n *vnode) Extended() []StatExtended { return n.ext }

// vnodeUG is a vnode that implements FileInfoUidGid.
type vnodeUG struct{ *vnode }

func (n vnodeUG) Uid() uint32 { return n.uid }
func (n vnodeUG) Gid() uint32 { return n.gid }

// wireOwner: the owner the client must see for this entry, and whether the wire carries one at all.
func (n *vnode) wireOwner() (uint32, uint32, bool) {
	if n.own == 0 {
		return 0, 0, false
	}
	return n.uid, n.gid, true
}

// asInfo returns the os.FileInfo handed to the server for this node, according to n.own.
func (n *vnode) asInfo() os.FileInfo {
	if n.own == 1 || n.own == 2 {
		return vnodeUG{n}
	}
	return n
}

func (n *vnode) Name() string { return n.name }
func (n *vnode) Size() int64  { return int64(len(n.data)) }
func (n *vnode) Mode() os.FileMode {
	m := n.mode
	if n.isDir {
		m |= os.ModeDir
	}
	if n.link != "" {
		m |= os.ModeSymlink
	}
	return m
}
func (n *vnode) ModTime() time.Time { return n.mtime }
func (n *vnode) IsDir() bool        { return n.isDir }
func (n *vnode) Sys() any {
	switch n.own {
	case 1:
		return nil
	case 2:
		return &syscall.Stat_t{Uid: n.uid + 7, Gid: n.gid + 7}
	case 3:
		return &syscall.Stat_t{Uid: n.uid, Gid: n.gid}
	}
	return &FileStat{UID: n.uid, GID: n.gid}
}

// snapshot copy (os.FileInfo handed to the server must not change afterwards)
func (n *vnode) info(name string) os.FileInfo {
	c := *n
	c.name = name
	c.data = make([]byte, len(n.data)) // only the size matters
	return c.asInfo()
}

// vfs implements all handler interfaces; which optional ones are visible is decided by the wrapper types below.
type vfs struct {
	lastCtx       context.Context
	writeFailEOF  bool    // failing WriteAt calls return io.EOF (status SSH_FX_EOF) instead of a failure with text
	failPartial   bool    // a scripted failure of ReadAt / ListAt (failAt) comes WITH data: (n > 0, err)
	closeErrEvery int     // > 0: the Close method of every object whose id is a multiple of it returns an error (it still releases the object)
	reenter       bool    // handler objects call the exported Request API (Context, WithContext) from inside their methods, as a real handler may
	badBytes      []int   // handler ReadAt / WriteAt calls whose range contains one of these positions fail with "E@<lowest>"
	hlog          []hcall // every handler entry-point invocation (kept in memory for the adapter checks)
	delay         func()  // optional: called at the start of every ReadAt / WriteAt handler call (schedule perturbation)
	quiet         bool
	calls         int64 // number of handler / object method invocations (atomic)
	mu            sync.Mutex
	nodes         map[string]*vnode // absolute clean path -> node
	tr            *tracer
	gate          *gateCtl
	nobj          int
	objs          []*vobj
	failAt        map[string]error                                           // "R:<off>" / "W:<off>" / "open:<path>" / "cmd:<method>" / "list:<path>" -> error to return
	listScript    func(obj *vobj, dst []os.FileInfo, off int64) (int, error) // optional scripted ListAt
	readHook      func(obj *vobj, p []byte, off int64) (int, error, bool)    // optional override
	realpath      func(string) (string, error)
	statvfs       *StatVFS
	epoch         time.Time
}

// ev logs a handler-level event unless the session is quiet (stream tests only need the final object report).
func (v *vfs) ev(name string, f kv) {
	if !v.quiet {
		v.tr.emit(name, f)
	}
}

func newVfs(tr *tracer, gate *gateCtl) *vfs {
	v := &vfs{nodes: map[string]*vnode{}, tr: tr, gate: gate, failAt: map[string]error{}, epoch: time.Unix(1700000000, 0), reenter: true}
	v.nodes["/"] = &vnode{name: "/", isDir: true, mode: 0o755, mtime: v.epoch}
	return v
}

func (v *vfs) addFile(p string, data []byte) {
	v.mu.Lock()
	v.nodes[p] = &vnode{name: path.Base(p), data: append([]byte(nil), data...), mode: 0o644, mtime: v.epoch}
	v.mu.Unlock()
}
func (v *vfs) addDir(p string) {
	v.mu.Lock()
	v.nodes[p] = &vnode{name: path.Base(p), isDir: true, mode: 0o755, mtime: v.epoch}
	v.mu.Unlock()
}
func (v *vfs) fileData(p string) []byte {
	v.mu.Lock()
	defer v.mu.Unlock()
	if n, ok := v.nodes[p]; ok {
		return append([]byte(nil), n.data...)
	}
	return nil
}

// snapshot: path -> description (for "as if the stream had stopped" comparisons)
func (v *vfs) snapshot() map[string]string {
	v.mu.Lock()
	defer v.mu.Unlock()
	out := map[string]string{}
	for p, n := range v.nodes {
		switch {
		case n.isDir:
			out[p] = "dir"
		case n.link != "":
			out[p] = "link:" + n.link
		default:
			out[p] = "file:" + hexs(n.data)
		}
	}
	return out
}

// vobj is one reader / writer / readwriter / lister handed to the server.
type vobj struct {
	v      *vfs
	id     int
	kind   string // "Get" "Put" "Open" "List"
	path   string
	node   *vnode
	ctx    context.Context
	mu     sync.Mutex
	inflt  int
	closed int
	terr   int
	ents   []os.FileInfo // for listers
	tag    int           // set by the harness: the (small integer) handle this object belongs to
	req    *Request      // the request the object was obtained for
}

// closeFails: the object's Close reports an error (a handler is free to do so; the handle is released all the same).
func (o *vobj) closeFails() bool { return o.v.closeErrEvery > 0 && o.id%o.v.closeErrEvery == 0 }

// probe: a handler object may use the exported API of its Request at any time (e.g. to derive a context for a
// backend call); the package must not hold the request's locks while it calls into a handler.
func (o *vobj) probe() {
	if o.v.reenter && o.req != nil {
		_ = o.req.WithContext(o.req.Context())
	}
}

func (v *vfs) newObj(kind, p string, n *vnode, r *Request) *vobj {
	v.mu.Lock()
	v.nobj++
	o := &vobj{v: v, id: v.nobj, kind: kind, path: p, node: n, ctx: r.Context(), req: r}
	v.objs = append(v.objs, o)
	v.mu.Unlock()
	return o
}

// ctxDoneSoon reports whether ctx is cancelled (it is cancelled before the reply to the request leaves; a short grace
// period only covers scheduling).
func ctxDoneSoon(ctx context.Context) bool {
	if ctx == nil {
		return true
	}
	select {
	case <-ctx.Done():
		return true
	case <-time.After(300 * time.Millisecond):
		return false
	}
}

// objByTag returns the object the harness tagged with the given handle number (nil if none).
func (v *vfs) objByTag(tag int) *vobj {
	v.mu.Lock()
	defer v.mu.Unlock()
	for _, o := range v.objs {
		if o.tag == tag {
			return o
		}
	}
	return nil
}

// lastObj returns the most recently created object (nil if none).
func (v *vfs) lastObj() *vobj {
	v.mu.Lock()
	defer v.mu.Unlock()
	if len(v.objs) == 0 {
		return nil
	}
	return v.objs[len(v.objs)-1]
}

func (v *vfs) nObjs() int {
	v.mu.Lock()
	defer v.mu.Unlock()
	return len(v.objs)
}

func (o *vobj) begin(rw string, off int64, n int) {
	if d := o.v.delay; d != nil {
		d()
	}
	atomic.AddInt64(&o.v.calls, 1)
	o.mu.Lock()
	o.inflt++
	o.v.ev("OpBegin", kv{"obj": o.id, "rw": rw, "off": int(off), "len": n, "closed": o.closed})
	o.mu.Unlock()
}
func (o *vobj) end(rw string, off int64, n int, err error) {
	o.mu.Lock()
	o.inflt--
	o.v.ev("OpEnd", kv{"obj": o.id, "rw": rw, "off": int(off), "n": n, "err": errStr(err)})
	o.mu.Unlock()
}

func errStr(err error) string {
	if err == nil {
		return ""
	}
	return err.Error()
}

func (o *vobj) ReadAt(p []byte, off int64) (int, error) {
	o.begin("R", off, len(p))
	o.v.gate.pass("R:" + itoa(int(off)))
	o.v.gate.pass("obj:" + itoa(o.id))
	o.probe()
	var n int
	var err error
	if off < 0 || off > 1<<40 {
		o.end("R", off, 0, syscall.EINVAL)
		return 0, syscall.EINVAL // like pread(2)
	}
	if h := o.v.readHook; h != nil {
		if hn, herr, ok := h(o, p, off); ok {
			o.end("R", off, hn, herr)
			return hn, herr
		}
	}
	if e := o.v.fail("R:" + itoa(int(off))); e != nil {
		err = e
		if o.v.failPartial {
			o.v.mu.Lock()
			if off < int64(len(o.node.data)) {
				n = copy(p, o.node.data[off:])
			}
			o.v.mu.Unlock()
		}
	} else if b := o.v.firstBad(off, len(p), true, o.node); b >= 0 {
		err = fmt.Errorf("E@%d", b)
	} else {
		o.v.mu.Lock()
		d := o.node.data
		if off >= int64(len(d)) {
			err = io.EOF
		} else {
			n = copy(p, d[off:])
			if n < len(p) {
				err = io.EOF
			}
		}
		o.v.mu.Unlock()
	}
	o.end("R", off, n, err)
	return n, err
}

func (o *vobj) WriteAt(p []byte, off int64) (int, error) {
	o.begin("W", off, len(p))
	o.v.gate.pass("W:" + itoa(int(off)))
	o.v.gate.pass("obj:" + itoa(o.id))
	o.probe()
	var n int
	var err error
	if off < 0 || off > 1<<40 {
		o.end("W", off, 0, syscall.EINVAL)
		return 0, syscall.EINVAL // like pwrite(2)
	}
	if e := o.v.fail("W:" + itoa(int(off))); e != nil {
		err = e
	} else if b := o.v.firstBad(off, len(p), false, o.node); b >= 0 {
		err = fmt.Errorf("E@%d", b)
		if o.v.writeFailEOF {
			err = io.EOF // reaches the client as the status code SSH_FX_EOF
		}
	} else {
		o.v.mu.Lock()
		need := int(off) + len(p)
		if len(p) == 0 {
			need = 0 // like pwrite(2): writing nothing does not extend the file
		}
		if need > len(o.node.data) {
			nd := make([]byte, need)
			copy(nd, o.node.data)
			o.node.data = nd
		}
		if len(p) > 0 {
			n = copy(o.node.data[off:], p)
		}
		o.v.mu.Unlock()
	}
	o.end("W", off, n, err)
	return n, err
}

func (o *vobj) Close() error {
	o.v.gate.pass("close:" + itoa(o.id)) // a slow Close (the harness may hold it)
	o.mu.Lock()
	o.closed++
	o.v.ev("ObjClose", kv{"obj": o.id, "kind": o.kind, "inflight": o.inflt, "nclose": o.closed})
	o.mu.Unlock()
	// no probe here: the package closes a lister under the request's state lock (request.go closeListerAt), and no
	// property speaks about what an optional Close method may call
	if o.closeFails() {
		return fmt.Errorf("close failed")
	}
	return nil
}

func (o *vobj) TransferError(err error) {
	o.mu.Lock()
	o.terr++
	o.v.ev("ObjTErr", kv{"obj": o.id, "err": errStr(err), "closed": o.closed})
	o.mu.Unlock()
}

func (o *vobj) ListAt(dst []os.FileInfo, off int64) (int, error) {
	atomic.AddInt64(&o.v.calls, 1)
	o.mu.Lock()
	o.inflt++
	o.v.ev("OpBegin", kv{"obj": o.id, "rw": "L", "off": int(off), "len": len(dst), "closed": o.closed})
	o.mu.Unlock()
	o.v.gate.pass("L:" + itoa(o.id))
	o.probe()
	var n int
	var err error
	if e := o.v.fail("L:" + itoa(int(off))); e != nil {
		err = e
		if o.v.failPartial && off < int64(len(o.ents)) {
			n = copy(dst, o.ents[off:])
		}
	} else if s := o.v.listScript; s != nil && o.kind == "List" {
		n, err = s(o, dst, off)
	} else {
		if off >= int64(len(o.ents)) {
			err = io.EOF
		} else {
			n = copy(dst, o.ents[off:])
			if n < len(dst) {
				err = io.EOF
			}
		}
	}
	o.mu.Lock()
	o.inflt--
	o.v.ev("OpEnd", kv{"obj": o.id, "rw": "L", "off": int(off), "n": n, "err": errStr(err)})
	o.mu.Unlock()
	return n, err
}

func itoa(i int) string { return syscallItoa(i) }

func syscallItoa(i int) string {
	if i == 0 {
		return "0"
	}
	neg := i < 0
	if neg {
		i = -i
	}
	var b [20]byte
	p := len(b)
	for i > 0 {
		p--
		b[p] = byte('0' + i%10)
		i /= 10
	}
	if neg {
		p--
		b[p] = '-'
	}
	return string(b[p:])
}

// firstBad: lowest bad byte in [off, off+n) (for reads clipped to the file), or -1
func (v *vfs) firstBad(off int64, n int, read bool, node *vnode) int {
	v.mu.Lock()
	defer v.mu.Unlock()
	if len(v.badBytes) == 0 {
		return -1
	}
	end := off + int64(n)
	if read && end > int64(len(node.data)) {
		end = int64(len(node.data))
	}
	best := -1
	for _, b := range v.badBytes {
		if int64(b) >= off && int64(b) < end && (best < 0 || b < best) {
			best = b
		}
	}
	return best
}

func (v *vfs) fail(key string) error {
	v.mu.Lock()
	defer v.mu.Unlock()
	return v.failAt[key]
}

type hcall struct {
	H, M, Path, Target string
	Flags              uint32
	PF                 FileOpenFlags
	AF                 FileAttrFlags
	Attrs              *FileStat
}

func (v *vfs) takeLog() []hcall {
	v.mu.Lock()
	defer v.mu.Unlock()
	l := v.hlog
	v.hlog = nil
	return l
}

func (v *vfs) logReq(h string, r *Request) {
	atomic.AddInt64(&v.calls, 1)
	v.mu.Lock()
	v.lastCtx = r.Context() // the context handed to the most recent handler call (checked for failed opens)
	v.hlog = append(v.hlog, hcall{H: h, M: r.Method, Path: r.Filepath, Target: r.Target, Flags: r.Flags, PF: r.Pflags(), AF: r.AttrFlags(), Attrs: r.Attributes()})
	v.mu.Unlock()
	a := r.AttrFlags()
	f := r.Pflags()
	fl := 0
	if r.Method == "Setstat" || r.Method == "Open" || r.Method == "Put" || r.Method == "Get" {
		fl = int(r.Flags)
	}
	var st kv
	if fs := r.Attributes(); fs != nil {
		st = kv{"size": int(fs.Size & 0x7fffffff), "uid": int(fs.UID & 0x7fffffff), "gid": int(fs.GID & 0x7fffffff), "mode": int(fs.Mode & 0x7fffffff), "atime": int(fs.Atime & 0x7fffffff), "mtime": int(fs.Mtime & 0x7fffffff)}
	}
	v.ev("Handler", kv{"h": h, "method": r.Method, "path": r.Filepath, "target": r.Target, "flags": fl & 0x7fffffff,
		"pf": kv{"r": f.Read, "w": f.Write, "a": f.Append, "c": f.Creat, "t": f.Trunc, "e": f.Excl},
		"af": kv{"size": a.Size, "uidgid": a.UidGid, "perm": a.Permissions, "time": a.Acmodtime}, "attrs": st})
}

// ---- FileReader / FileWriter / OpenFileWriter

func (v *vfs) Fileread(r *Request) (io.ReaderAt, error) {
	v.logReq("Fileread", r)
	if e := v.fail("open:" + r.Filepath); e != nil {
		return nil, e
	}
	v.mu.Lock()
	n, ok := v.nodes[r.Filepath]
	v.mu.Unlock()
	if !ok {
		return nil, os.ErrNotExist
	}
	if n.isDir {
		return nil, syscall.EISDIR
	}
	o := v.newObj("Get", r.Filepath, n, r)
	v.ev("ObjOpen", kv{"obj": o.id, "kind": "Get", "path": r.Filepath})
	return o, nil
}

func (v *vfs) openForWrite(r *Request, kind string) (*vobj, error) {
	if e := v.fail("open:" + r.Filepath); e != nil {
		return nil, e
	}
	f := r.Pflags()
	v.mu.Lock()
	n, ok := v.nodes[r.Filepath]
	if ok && f.Creat && f.Excl {
		v.mu.Unlock()
		return nil, os.ErrExist
	}
	if !ok {
		if !f.Creat {
			v.mu.Unlock()
			return nil, os.ErrNotExist
		}
		if _, pok := v.nodes[path.Dir(r.Filepath)]; !pok {
			v.mu.Unlock()
			return nil, os.ErrNotExist
		}
		n = &vnode{name: path.Base(r.Filepath), mode: 0o644, mtime: v.epoch}
		v.nodes[r.Filepath] = n
	}
	if n.isDir {
		v.mu.Unlock()
		return nil, syscall.EISDIR
	}
	if f.Trunc {
		n.data = nil
	}
	v.mu.Unlock()
	o := v.newObj(kind, r.Filepath, n, r)
	v.ev("ObjOpen", kv{"obj": o.id, "kind": kind, "path": r.Filepath})
	return o, nil
}

func (v *vfs) Filewrite(r *Request) (io.WriterAt, error) {
	v.logReq("Filewrite", r)
	o, err := v.openForWrite(r, "Put")
	if err != nil {
		return nil, err
	}
	return o, nil
}

func (v *vfs) OpenFile(r *Request) (WriterAtReaderAt, error) {
	v.logReq("OpenFile", r)
	o, err := v.openForWrite(r, "Open")
	if err != nil {
		return nil, err
	}
	return o, nil
}

// ---- FileCmder (+ PosixRename, StatVFS)

func (v *vfs) Filecmd(r *Request) error {
	v.logReq("Filecmd", r)
	if e := v.fail("cmd:" + r.Method); e != nil {
		return e
	}
	v.mu.Lock()
	defer v.mu.Unlock()
	switch r.Method {
	case "Setstat":
		n, ok := v.nodes[r.Filepath]
		if !ok {
			return os.ErrNotExist
		}
		af := r.AttrFlags()
		at := r.Attributes()
		if at == nil { // attribute block shorter than its flags announce
			return syscall.EINVAL
		}
		if af.Size && !n.isDir {
			nd := make([]byte, at.Size)
			copy(nd, n.data)
			n.data = nd
		}
		if af.Permissions {
			n.mode = at.FileMode().Perm()
		}
		if af.Acmodtime {
			n.mtime = time.Unix(int64(at.Mtime), 0)
		}
		if af.UidGid {
			n.uid, n.gid = at.UID, at.GID
		}
		return nil
	case "Rename", "PosixRename":
		n, ok := v.nodes[r.Filepath]
		if !ok {
			return os.ErrNotExist
		}
		if _, ex := v.nodes[r.Target]; ex && r.Method == "Rename" {
			return os.ErrExist
		}
		delete(v.nodes, r.Filepath)
		n.name = path.Base(r.Target)
		v.nodes[r.Target] = n
		return nil
	case "Rmdir", "Remove":
		n, ok := v.nodes[r.Filepath]
		if !ok {
			return os.ErrNotExist
		}
		if r.Method == "Rmdir" && !n.isDir {
			return syscall.ENOTDIR
		}
		if r.Method == "Remove" && n.isDir {
			return syscall.EISDIR
		}
		for p := range v.nodes {
			if p != r.Filepath && path.Dir(p) == r.Filepath {
				return syscall.ENOTEMPTY
			}
		}
		delete(v.nodes, r.Filepath)
		return nil
	case "Mkdir":
		if _, ok := v.nodes[r.Filepath]; ok {
			return os.ErrExist
		}
		if _, ok := v.nodes[path.Dir(r.Filepath)]; !ok {
			return os.ErrNotExist
		}
		v.nodes[r.Filepath] = &vnode{name: path.Base(r.Filepath), isDir: true, mode: 0o755, mtime: v.epoch}
		return nil
	case "Link":
		n, ok := v.nodes[r.Filepath]
		if !ok {
			return os.ErrNotExist
		}
		if _, ex := v.nodes[r.Target]; ex {
			return os.ErrExist
		}
		v.nodes[r.Target] = n
		return nil
	case "Symlink":
		if _, ex := v.nodes[r.Target]; ex {
			return os.ErrExist
		}
		v.nodes[r.Target] = &vnode{name: path.Base(r.Target), link: r.Filepath, mode: 0o777, mtime: v.epoch}
		return nil
	}
	return ErrSSHFxOpUnsupported
}

func (v *vfs) PosixRename(r *Request) error {
	v.logReq("PosixRename", r)
	if e := v.fail("cmd:PosixRename"); e != nil {
		return e
	}
	v.mu.Lock()
	defer v.mu.Unlock()
	n, ok := v.nodes[r.Filepath]
	if !ok {
		return os.ErrNotExist
	}
	delete(v.nodes, r.Filepath)
	n.name = path.Base(r.Target)
	v.nodes[r.Target] = n
	return nil
}

func (v *vfs) StatVFS(r *Request) (*StatVFS, error) {
	v.logReq("StatVFS", r)
	if e := v.fail("cmd:StatVFS"); e != nil {
		return nil, e
	}
	if v.statvfs != nil {
		c := *v.statvfs
		return &c, nil
	}
	return &StatVFS{Bsize: 4096, Frsize: 4096, Blocks: 1000, Bfree: 500, Bavail: 400, Files: 100, Ffree: 50, Favail: 40, Fsid: 7, Flag: 1, Namemax: 255}, nil
}

// ---- FileLister (+ Lstat, RealPath, Readlink)

func (v *vfs) listing(r *Request, h string, follow bool) (ListerAt, error) {
	v.logReq(h, r)
	if e := v.fail("list:" + r.Filepath); e != nil {
		return nil, e
	}
	v.mu.Lock()
	n, ok := v.nodes[r.Filepath]
	if ok && follow && n.link != "" {
		t := n.link
		if !path.IsAbs(t) {
			t = path.Join(path.Dir(r.Filepath), t)
		}
		n, ok = v.nodes[t]
	}
	if !ok {
		v.mu.Unlock()
		return nil, os.ErrNotExist
	}
	var ents []os.FileInfo
	switch r.Method {
	case "List":
		if !n.isDir {
			v.mu.Unlock()
			return nil, syscall.ENOTDIR
		}
		var names []string
		for p := range v.nodes {
			if p != "/" && path.Dir(p) == r.Filepath {
				names = append(names, p)
			}
		}
		sort.Strings(names)
		for _, p := range names {
			ents = append(ents, v.nodes[p].info(path.Base(p)))
		}
	case "Readlink":
		if n.link == "" {
			v.mu.Unlock()
			return nil, syscall.EINVAL
		}
		ents = []os.FileInfo{(&vnode{name: n.link, mode: 0o777, mtime: v.epoch}).info(n.link)}
	default: // Stat, Lstat
		ents = []os.FileInfo{n.info(path.Base(r.Filepath))}
	}
	v.mu.Unlock()
	if r.Method == "List" {
		o := v.newObj("List", r.Filepath, n, r)
		o.ents = ents
		v.ev("ObjOpen", kv{"obj": o.id, "kind": "List", "path": r.Filepath})
		return o, nil
	}
	// Stat-like listers are not closed by the server (no handle): a plain lister without Close, not registered
	return plainLister{&vobj{v: v, kind: "Stat", path: r.Filepath, node: n, ents: ents}}, nil
}

type plainLister struct{ o *vobj }

func (p plainLister) ListAt(dst []os.FileInfo, off int64) (int, error) {
	if off >= int64(len(p.o.ents)) {
		return 0, io.EOF
	}
	n := copy(dst, p.o.ents[off:])
	if n < len(dst) {
		return n, io.EOF
	}
	return n, nil
}

func (v *vfs) Filelist(r *Request) (ListerAt, error) { return v.listing(r, "Filelist", true) }
func (v *vfs) Lstat(r *Request) (ListerAt, error)    { return v.listing(r, "Lstat", false) }
func (v *vfs) RealPath(p string) (string, error) {
	v.mu.Lock()
	v.hlog = append(v.hlog, hcall{H: "RealPath", M: "RealPath", Path: p})
	v.mu.Unlock()
	v.ev("Handler", kv{"h": "RealPath", "method": "RealPath", "path": p, "target": "", "flags": 0})
	if v.realpath != nil {
		return v.realpath(p)
	}
	return cleanPath(p), nil
}
func (v *vfs) Readlink(p string) (string, error) {
	v.mu.Lock()
	v.hlog = append(v.hlog, hcall{H: "Readlink", M: "Readlink", Path: p})
	v.mu.Unlock()
	v.ev("Handler", kv{"h": "Readlink", "method": "Readlink", "path": p, "target": "", "flags": 0})
	if e := v.fail("readlink:" + p); e != nil {
		return "", e
	}
	v.mu.Lock()
	defer v.mu.Unlock()
	n, ok := v.nodes[p]
	if !ok {
		return "", os.ErrNotExist
	}
	if n.link == "" {
		return "", syscall.EINVAL
	}
	return n.link, nil
}

// ---- wrappers exposing exactly the chosen optional interfaces

type putBasic struct{ v *vfs }

func (p putBasic) Filewrite(r *Request) (io.WriterAt, error) { return p.v.Filewrite(r) }

type putOpen struct{ v *vfs }

func (p putOpen) Filewrite(r *Request) (io.WriterAt, error)     { return p.v.Filewrite(r) }
func (p putOpen) OpenFile(r *Request) (WriterAtReaderAt, error) { return p.v.OpenFile(r) }

type cmdBasic struct{ v *vfs }

func (c cmdBasic) Filecmd(r *Request) error { return c.v.Filecmd(r) }

type cmdPosix struct{ v *vfs }

func (c cmdPosix) Filecmd(r *Request) error     { return c.v.Filecmd(r) }
func (c cmdPosix) PosixRename(r *Request) error { return c.v.PosixRename(r) }

type cmdVFS struct{ v *vfs }

func (c cmdVFS) Filecmd(r *Request) error             { return c.v.Filecmd(r) }
func (c cmdVFS) StatVFS(r *Request) (*StatVFS, error) { return c.v.StatVFS(r) }

type cmdBoth struct{ v *vfs }

func (c cmdBoth) Filecmd(r *Request) error             { return c.v.Filecmd(r) }
func (c cmdBoth) PosixRename(r *Request) error         { return c.v.PosixRename(r) }
func (c cmdBoth) StatVFS(r *Request) (*StatVFS, error) { return c.v.StatVFS(r) }

type listBasic struct{ v *vfs }

func (l listBasic) Filelist(r *Request) (ListerAt, error) { return l.v.Filelist(r) }

type listLstat struct{ v *vfs }

func (l listLstat) Filelist(r *Request) (ListerAt, error) { return l.v.Filelist(r) }
func (l listLstat) Lstat(r *Request) (ListerAt, error)    { return l.v.Lstat(r) }

type listReal struct{ v *vfs }

func (l listReal) Filelist(r *Request) (ListerAt, error) { return l.v.Filelist(r) }
func (l listReal) RealPath(p string) (string, error)     { return l.v.RealPath(p) }

type listLegacyReal struct{ v *vfs }

func (l listLegacyReal) Filelist(r *Request) (ListerAt, error) { return l.v.Filelist(r) }
func (l listLegacyReal) RealPath(p string) string              { s, _ := l.v.RealPath(p); return s }

type listReadlink struct{ v *vfs }

func (l listReadlink) Filelist(r *Request) (ListerAt, error) { return l.v.Filelist(r) }
func (l listReadlink) Readlink(p string) (string, error)     { return l.v.Readlink(p) }

type listLR struct{ v *vfs }

func (l listLR) Filelist(r *Request) (ListerAt, error) { return l.v.Filelist(r) }
func (l listLR) Lstat(r *Request) (ListerAt, error)    { return l.v.Lstat(r) }
func (l listLR) RealPath(p string) (string, error)     { return l.v.RealPath(p) }

type listLK struct{ v *vfs }

func (l listLK) Filelist(r *Request) (ListerAt, error) { return l.v.Filelist(r) }
func (l listLK) Lstat(r *Request) (ListerAt, error)    { return l.v.Lstat(r) }
func (l listLK) Readlink(p string) (string, error)     { return l.v.Readlink(p) }

type listRK struct{ v *vfs }

func (l listRK) Filelist(r *Request) (ListerAt, error) { return l.v.Filelist(r) }
func (l listRK) RealPath(p string) (string, error)     { return l.v.RealPath(p) }
func (l listRK) Readlink(p string) (string, error)     { return l.v.Readlink(p) }

type listAll struct{ v *vfs }

func (l listAll) Filelist(r *Request) (ListerAt, error) { return l.v.Filelist(r) }
func (l listAll) Lstat(r *Request) (ListerAt, error)    { return l.v.Lstat(r) }
func (l listAll) RealPath(p string) (string, error)     { return l.v.RealPath(p) }
func (l listAll) Readlink(p string) (string, error)     { return l.v.Readlink(p) }

// handlers builds a Handlers value; opt is a set of letters:
//
//	o OpenFileWriter, p PosixRename, v StatVFS, l Lstat, r RealPath, g legacy RealPath, k Readlink
func (v *vfs) handlers(opt string) Handlers {
	has := func(c byte) bool {
		for i := 0; i < len(opt); i++ {
			if opt[i] == c {
				return true
			}
		}
		return false
	}
	h := Handlers{FileGet: v}
	if has('o') {
		h.FilePut = putOpen{v}
	} else {
		h.FilePut = putBasic{v}
	}
	switch {
	case has('p') && has('v'):
		h.FileCmd = cmdBoth{v}
	case has('p'):
		h.FileCmd = cmdPosix{v}
	case has('v'):
		h.FileCmd = cmdVFS{v}
	default:
		h.FileCmd = cmdBasic{v}
	}
	switch {
	case has('l') && has('r') && has('k'):
		h.FileList = listAll{v}
	case has('l') && has('r'):
		h.FileList = listLR{v}
	case has('l') && has('k'):
		h.FileList = listLK{v}
	case has('r') && has('k'):
		h.FileList = listRK{v}
	case has('l'):
		h.FileList = listLstat{v}
	case has('r'):
		h.FileList = listReal{v}
	case has('g'):
		h.FileList = listLegacyReal{v}
	case has('k'):
		h.FileList = listReadlink{v}
	default:
		h.FileList = listBasic{v}
	}
	return h
}

// FileReader must only expose Fileread: vfs itself has many methods, but Handlers.FileGet is typed FileReader
// and the server never type-asserts it, so passing v is fine.

// final report of every object (Close / TransferError / ctx) for C11
func (v *vfs) reportObjects() {
	v.mu.Lock()
	objs := append([]*vobj(nil), v.objs...)
	v.mu.Unlock()
	for _, o := range objs {
		o.mu.Lock()
		done := false
		select {
		case <-o.ctx.Done():
			done = true
		default:
		}
		v.tr.emit("ObjFinal", kv{"obj": o.id, "h": o.tag, "kind": o.kind, "nclose": o.closed, "nterr": o.terr, "ctxdone": done, "inflight": o.inflt})
		o.mu.Unlock()
	}
}
