//go:build verif

package sftp

// C20: no server reply can crash the client.

import (
	"bytes"
	"encoding/binary"
	"fmt"
	"io"
	"os"
	"runtime"
	"strings"
	"sync"
	"testing"
	"time"
)

type replyOp struct {
	name   string
	target byte // request type whose reply is mutated
	nth    int  // which request of that type within the operation (1-based)
	opts   []ClientOption
	run    func(cl *Client, f *File) error
}

func replyOps() []replyOp {
	small := []ClientOption{MaxPacketChecked(64), MaxConcurrentRequestsPerFile(3)}
	seq := []ClientOption{MaxPacketChecked(64), UseConcurrentReads(false)}
	cw := []ClientOption{MaxPacketChecked(64), MaxConcurrentRequestsPerFile(3), UseConcurrentWrites(true)}
	return []replyOp{
		{"Stat", tStat, 1, nil, func(cl *Client, f *File) error { fi, err := cl.Stat("/a"); useInfo(fi, err); return err }},
		{"Lstat", tLstat, 1, nil, func(cl *Client, f *File) error { fi, err := cl.Lstat("/a"); useInfo(fi, err); return err }},
		{"ReadLink", tReadlink, 1, nil, func(cl *Client, f *File) error { _, err := cl.ReadLink("/a"); return err }},
		{"RealPath", tRealpath, 1, nil, func(cl *Client, f *File) error { _, err := cl.RealPath("a"); return err }},
		{"Open", tOpen, 1, nil, func(cl *Client, f *File) error {
			g, err := cl.Open("/a")
			if err == nil {
				_ = g.Name()
				g.Read(make([]byte, 4))
				g.Close()
			}
			return err
		}},
		{"Mkdir", tMkdir, 1, nil, func(cl *Client, f *File) error { return cl.Mkdir("/a") }},
		{"Remove", tRemove, 1, nil, func(cl *Client, f *File) error { return cl.Remove("/a") }},
		{"RemoveDirectory", tRmdir, 1, nil, func(cl *Client, f *File) error { return cl.RemoveDirectory("/a") }},
		{"Rename", tRename, 1, nil, func(cl *Client, f *File) error { return cl.Rename("/a", "/b") }},
		{"PosixRename", tExtended, 1, nil, func(cl *Client, f *File) error { return cl.PosixRename("/a", "/b") }},
		{"Link", tExtended, 1, nil, func(cl *Client, f *File) error { return cl.Link("/a", "/b") }},
		{"Symlink", tSymlink, 1, nil, func(cl *Client, f *File) error { return cl.Symlink("/a", "/b") }},
		{"Chmod", tSetstat, 1, nil, func(cl *Client, f *File) error { return cl.Chmod("/a", 0o600) }},
		{"StatVFS", tExtended, 1, nil, func(cl *Client, f *File) error {
			v, err := cl.StatVFS("/a")
			if err == nil {
				_ = v.TotalSpace() + v.FreeSpace()
			}
			return err
		}},
		{"ReadDir-opendir", tOpendir, 1, nil, func(cl *Client, f *File) error {
			fis, err := cl.ReadDir("/d")
			for _, fi := range fis {
				useInfo(fi, nil)
			}
			return err
		}},
		{"ReadDir-readdir1", tReaddir, 1, nil, func(cl *Client, f *File) error {
			fis, err := cl.ReadDir("/d")
			for _, fi := range fis {
				useInfo(fi, nil)
			}
			return err
		}},
		{"ReadDir-readdir3", tReaddir, 3, nil, func(cl *Client, f *File) error {
			fis, err := cl.ReadDir("/d")
			for _, fi := range fis {
				useInfo(fi, nil)
			}
			return err
		}},
		{"ReadDir-close", tClose, 1, nil, func(cl *Client, f *File) error {
			fis, err := cl.ReadDir("/d")
			for _, fi := range fis {
				useInfo(fi, nil)
			}
			return err
		}},
		{"MkdirAll", tStat, 1, nil, func(cl *Client, f *File) error { return cl.MkdirAll("/x/y") }},
		{"File.Stat", tFstat, 1, nil, func(cl *Client, f *File) error { fi, err := f.Stat(); useInfo(fi, err); return err }},
		{"File.ReadAt", tRead, 1, small, func(cl *Client, f *File) error { _, err := f.ReadAt(make([]byte, 40), 3); return err }},
		{"File.ReadAt-conc2", tRead, 2, small, func(cl *Client, f *File) error { _, err := f.ReadAt(make([]byte, 300), 3); return err }},
		{"File.ReadAt-seq2", tRead, 2, seq, func(cl *Client, f *File) error { _, err := f.ReadAt(make([]byte, 300), 3); return err }},
		{"File.Read", tRead, 1, small, func(cl *Client, f *File) error { _, err := f.Read(make([]byte, 30)); return err }},
		{"File.WriteTo-stat", tStat, 1, small, func(cl *Client, f *File) error { _, err := f.WriteTo(io.Discard); return err }},
		{"File.WriteTo-conc3", tRead, 3, small, func(cl *Client, f *File) error { _, err := f.WriteTo(io.Discard); return err }},
		{"File.WriteTo-seq2", tRead, 2, seq, func(cl *Client, f *File) error { _, err := f.WriteTo(io.Discard); return err }},
		{"File.WriteAt", tWrite, 1, small, func(cl *Client, f *File) error { _, err := f.WriteAt([]byte("abc"), 2); return err }},
		{"File.WriteAt-conc2", tWrite, 2, cw, func(cl *Client, f *File) error { _, err := f.WriteAt(make([]byte, 300), 2); return err }},
		{"File.WriteAt-seq2", tWrite, 2, small, func(cl *Client, f *File) error { _, err := f.WriteAt(make([]byte, 300), 2); return err }},
		{"File.ReadFrom-seq2", tWrite, 2, small, func(cl *Client, f *File) error { _, err := f.ReadFrom(bytes.NewReader(make([]byte, 300))); return err }},
		{"File.ReadFrom-conc2", tWrite, 2, cw, func(cl *Client, f *File) error { _, err := f.ReadFrom(bytes.NewReader(make([]byte, 300))); return err }},
		{"File.Seek-end", tFstat, 1, nil, func(cl *Client, f *File) error { _, err := f.Seek(0, io.SeekEnd); return err }},
		{"File.Truncate", tFsetstat, 1, nil, func(cl *Client, f *File) error { return f.Truncate(5) }},
		{"File.Sync", tExtended, 1, nil, func(cl *Client, f *File) error { return f.Sync() }},
		{"File.Close", tClose, 1, nil, func(cl *Client, f *File) error { return f.Close() }},
		{"Concurrent-Lstat", tLstat, 2, nil, func(cl *Client, f *File) error {
			// eight goroutines share the client; the second LSTAT reply is the bad one. Every one of them must return.
			var wg sync.WaitGroup
			var first error
			var mu sync.Mutex
			for g := 0; g < 8; g++ {
				wg.Add(1)
				go func(g int) {
					defer wg.Done()
					for k := 0; k < 4; k++ {
						var err error
						switch (g + k) % 3 {
						case 0:
							_, err = cl.Lstat(fmt.Sprintf("/c/%d/%d", g, k))
						case 1:
							_, err = f.WriteAt([]byte("xyz"), int64(g*8))
						default:
							_, err = cl.ReadLink(fmt.Sprintf("/c/%d/%d", g, k))
						}
						if err != nil {
							mu.Lock()
							if first == nil {
								first = err
							}
							mu.Unlock()
						}
					}
				}(g)
			}
			wg.Wait()
			return first
		}},
	}
}

// useInfo touches every accessor of a returned FileInfo: a value the operation returned with a nil error must be usable.
func useInfo(fi os.FileInfo, err error) {
	if err != nil {
		return
	}
	_ = fi.Name()
	_ = fi.Size()
	_ = fi.Mode()
	_ = fi.ModTime()
	_ = fi.IsDir()
	_ = fi.Sys()
}

type replyMut struct {
	desc string
	f    func(valid []byte) []byte
	// cut > 0: the reply is sent unchanged but the server->client stream ends after its first cut bytes, with EOF or
	// (cutErr) with a transport error: a truncated reply as the transport delivers it
	cut    int
	cutErr bool
}

func replyMutations(valid []byte, r interface{ Intn(int) int }, thorough bool) []replyMut {
	var ms []replyMut
	add := func(desc string, b []byte) {
		ms = append(ms, replyMut{desc: desc, f: func([]byte) []byte { return b }})
	}
	// cut at every byte: a shorter, self-consistent frame
	for k := 5; k < len(valid); k++ {
		m := append([]byte(nil), valid[:k]...)
		binary.BigEndian.PutUint32(m, uint32(k-4))
		add(fmt.Sprintf("cut@%d", k), m)
	}
	// the stream itself ends inside the reply (after the length prefix, the type byte, the id, ...), with EOF and with an error
	for k := 1; k < len(valid); k++ {
		if !thorough && k > 10 && k != len(valid)-1 {
			continue
		}
		ms = append(ms, replyMut{desc: fmt.Sprintf("streamcut@%d:eof", k), cut: k}, replyMut{desc: fmt.Sprintf("streamcut@%d:err", k), cut: k, cutErr: true})
	}
	// length and count fields
	for _, off := range lengthFieldsAll(valid) {
		if off == 0 {
			continue // a wrong frame length is a framing fault of the stream (C04 / C08)
		}
		n := binary.BigEndian.Uint32(valid[off:])
		for _, v := range []uint32{0, 1, n - 1, n + 1, 1<<31 - 1, 1<<32 - 1, 1 << 29, 1 << 28} {
			if v == n {
				continue
			}
			m := append([]byte(nil), valid...)
			binary.BigEndian.PutUint32(m[off:], v)
			add(fmt.Sprintf("len@%d=%d", off, v), m)
		}
	}
	// reply type replaced
	types := []int{101, 102, 103, 104, 105, 201, 2, 0, 1, 3, 200, 255}
	if thorough {
		types = nil
		for v := 0; v < 256; v++ {
			types = append(types, v)
		}
	}
	for _, v := range types {
		if byte(v) == valid[4] {
			continue
		}
		m := append([]byte(nil), valid...)
		m[4] = byte(v)
		add(fmt.Sprintf("type=%d", v), m)
	}
	// a WELL-FORMED reply of every kind with the request's id (for most requests: of a kind the request cannot have)
	if len(valid) >= 9 {
		id := binary.BigEndian.Uint32(valid[5:9])
		add("wf:status-ok", fStatus(id, 0, "ok"))
		add("wf:status-eof", fStatus(id, 1, "eof"))
		add("wf:status-failure", fStatus(id, 4, "failure"))
		add("wf:status-code99", fStatus(id, 99, "?"))
		add("wf:handle", fHandle(id, "h"))
		add("wf:handle-empty", fHandle(id, ""))
		add("wf:data", fData(id, []byte("xyz")))
		add("wf:data-empty", fData(id, nil))
		add("wf:data-long", fData(id, make([]byte, 5000)))
		add("wf:name0", fName(id, nil))
		add("wf:name1", fName(id, []wname{{Name: "n", Long: "l", A: wattrs{}}}))
		add("wf:name2", fName(id, []wname{{Name: "n", Long: "l", A: wattrs{}}, {Name: "m", Long: "k", A: wattrs{Flags: 1, Size: 7}}}))
		add("wf:attrs-empty", fAttrs(id, wattrs{}))
		add("wf:attrs-size", fAttrs(id, wattrs{Flags: 1, Size: 1 << 62}))
		add("wf:extreply-empty", mkFrame(tExtReply, new(wb).u32(id).b))
		add("wf:extreply-short", mkFrame(tExtReply, new(wb).u32(id).u32(7).b))
	}
	// frames that are too short to carry an id, id replaced, random bodies
	add("empty-body", mkFrame(valid[4], nil))
	add("body-3", mkFrame(valid[4], []byte{0, 0, 0}))
	if len(valid) >= 9 {
		m := append([]byte(nil), valid...)
		m[8] ^= 0x55
		add("id-replaced", m)
	}
	for k := 0; k < 3; k++ {
		g := make([]byte, 4+r.Intn(40))
		for i := range g {
			g[i] = byte(r.Intn(256))
		}
		if len(valid) >= 9 {
			copy(g, valid[5:9]) // keep the id so that the reply reaches the caller
		}
		add("random-body", mkFrame(valid[4], g))
	}
	return ms
}

// runReplyCase performs one operation with one mutated reply and logs the outcome.
func runReplyCase(t testing.TB, tr *tracer, op replyOp, mut replyMut, caseNo int) {
	base := len(sftpGoroutines())
	pr := newPeer(t, tr)
	pr.quiet = true
	pr.fileSize = 200
	pr.exts = [][2]string{{"fsync@openssh.com", "1"}, {"statvfs@openssh.com", "2"}}
	pr.extFlag, pr.dots = 0x80000000, true
	seen := 0
	var sent []byte
	armed := false
	pr.mutate = func(f wframe, reply []byte) []byte {
		if armed && f.Typ == op.target {
			seen++
			if seen == op.nth {
				if mut.cut > 0 {
					var e error
					if mut.cutErr {
						e = errInjected
					}
					pr.s2c.setCut(pr.s2c.nwrit+mut.cut, e)
					sent = append([]byte(nil), reply[:min(mut.cut, len(reply))]...)
					return reply
				}
				sent = mut.f(reply)
				return sent
			}
		}
		return reply
	}
	if op.name == "Concurrent-Lstat" {
		// a slow transport: requests queue up behind the connection's write mutex
		pr.c2s.afterWrite = func(b []byte) { time.Sleep(30 * time.Microsecond) }
	}
	cl, err := pr.client(op.opts...)
	if err != nil {
		t.Fatalf("client: %v", err)
	}
	f, err := cl.OpenFile("/file", os.O_RDWR)
	if err != nil {
		t.Fatalf("open: %v", err)
	}
	armed = true
	type outcome struct {
		err   error
		panic string
	}
	done := make(chan outcome, 1)
	var m1, m2 runtime.MemStats
	runtime.ReadMemStats(&m1)
	go func() {
		var o outcome
		defer func() {
			if r := recover(); r != nil {
				o.panic = fmt.Sprint(r)
			}
			done <- o
		}()
		o.err = op.run(cl, f)
	}()
	returned := true
	var o outcome
	select {
	case o = <-done:
	case <-time.After(10 * time.Second):
		returned = false
	}
	runtime.ReadMemStats(&m2)
	armed = false
	// aftermath: still usable, or failed cleanly like after a connection loss
	usable, failedclean := false, false
	if returned {
		pc := make(chan error, 1)
		go func() {
			defer func() {
				if r := recover(); r != nil {
					pc <- fmt.Errorf("panic: %v", r)
				}
			}()
			_, e := cl.Lstat("/probe")
			pc <- e
		}()
		select {
		case e := <-pc:
			usable = e == nil
		case <-time.After(5 * time.Second):
		}
	}
	cc := make(chan struct{})
	go func() { cl.Close(); close(cc) }()
	closed := false
	select {
	case <-cc:
		closed = true
	case <-time.After(5 * time.Second):
		pr.c2s.CloseRead()
		pr.s2c.CloseWrite(io.ErrClosedPipe)
	}
	gone := waitFor(3*time.Second, func() bool { return len(sftpGoroutines()) <= base })
	failedclean = closed && gone
	if usable {
		usable = closed && gone
	}
	if sent == nil {
		sent = []byte{}
	}
	strict := true
	tr.emit("ReplyCase", kv{"op": op.name, "mut": mut.desc, "case": caseNo, "returned": returned, "panic": o.panic, "err": errStr(o.err),
		"alloc": int(min(m2.TotalAlloc-m1.TotalAlloc, 1<<30)), "reply": ints(sent), "usable": usable, "failedclean": failedclean, "strict": strict, "reached": len(sent) > 0})
}

func TestVerif_Replies(t *testing.T) {
	tr := newTracer(t)
	skip := envInt("VERIF_SKIP", 0)
	r := vRand(41)
	caseNo := 0
	for oi, op := range replyOps() {
		// the valid reply of the target request: one clean run with a recording mutate
		var valid []byte
		{
			pr := newPeer(t, tr)
			pr.quiet = true
			pr.fileSize = 200
			pr.exts = [][2]string{{"fsync@openssh.com", "1"}, {"statvfs@openssh.com", "2"}}
			pr.extFlag, pr.dots = 0x80000000, true
			seen := 0
			armed := false
			pr.mutate = func(f wframe, reply []byte) []byte {
				if armed && f.Typ == op.target {
					seen++
					if seen == op.nth {
						valid = append([]byte(nil), reply...)
					}
				}
				return reply
			}
			cl, err := pr.client(op.opts...)
			if err != nil {
				t.Fatal(err)
			}
			f, _ := cl.OpenFile("/file", os.O_RDWR)
			armed = true
			// the operation with all replies valid is a case of its own: it must of course not panic either
			caseNo++
			tr.reset(kv{"kind": "reply", "op": op.name, "mut": "valid", "case": caseNo})
			tr.flush()
			pmsg := ""
			var verr error
			func() {
				defer func() {
					if r := recover(); r != nil {
						pmsg = fmt.Sprint(r)
					}
				}()
				verr = op.run(cl, f)
			}()
			cl.Close()
			tr.emit("ReplyCase", kv{"op": op.name, "mut": "valid", "case": caseNo, "returned": true, "panic": pmsg, "err": errStr(verr), "alloc": 0,
				"reply": ints(valid), "usable": true, "failedclean": true, "strict": false, "reached": true})
			if pmsg != "" {
				continue
			}
		}
		if valid == nil {
			t.Fatalf("operation %s never sent request %d of type %d", op.name, op.nth, op.target)
		}
		muts := replyMutations(valid, r, vThorough())
		for mi, mu := range muts {
			caseNo++
			if caseNo <= skip {
				continue
			}
			// quick tier: a seeded third of the byte-level mutations; the well-formed replies of other kinds always (they are few,
			// and each one is a distinct protocol situation, not one more byte position)
			if !vThorough() && !strings.HasPrefix(mu.desc, "wf:") && (mi+oi+int(vSeed()))%3 != 0 {
				continue
			}
			tr.reset(kv{"kind": "reply", "op": op.name, "mut": mu.desc, "case": caseNo})
			tr.flush()
			runReplyCase(t, tr, op, mu, caseNo)
		}
	}
}
