//go:build verif

package sftp

// C17: conversion functions on their full domains, attributes of real files of every kind, set-attributes by flag subset.

import (
	"fmt"
	"net"
	"os"
	"os/user"
	"path/filepath"
	"strings"
	"syscall"
	"testing"
	"time"

	sshfx "github.com/pkg/sftp/internal/encoding/ssh/filexfer"
)

func modeRecord(fm os.FileMode) kv {
	typ := "other"
	switch fm & os.ModeType {
	case 0:
		typ = "reg"
	case os.ModeDir:
		typ = "dir"
	case os.ModeSymlink:
		typ = "symlink"
	case os.ModeNamedPipe:
		typ = "fifo"
	case os.ModeSocket:
		typ = "socket"
	case os.ModeDevice | os.ModeCharDevice:
		typ = "chardev"
	case os.ModeDevice:
		typ = "blockdev"
	}
	return kv{"typ": typ, "perm": int(fm.Perm()), "suid": fm&os.ModeSetuid != 0, "sgid": fm&os.ModeSetgid != 0, "sticky": fm&os.ModeSticky != 0}
}

func buildMode(typ string, perm int, suid, sgid, sticky bool) os.FileMode {
	fm := os.FileMode(perm)
	switch typ {
	case "dir":
		fm |= os.ModeDir
	case "symlink":
		fm |= os.ModeSymlink
	case "fifo":
		fm |= os.ModeNamedPipe
	case "socket":
		fm |= os.ModeSocket
	case "chardev":
		fm |= os.ModeDevice | os.ModeCharDevice
	case "blockdev":
		fm |= os.ModeDevice
	}
	if suid {
		fm |= os.ModeSetuid
	}
	if sgid {
		fm |= os.ModeSetgid
	}
	if sticky {
		fm |= os.ModeSticky
	}
	return fm
}

func TestVerif_ModesTable(t *testing.T) {
	tr := newTracer(t)
	for w := 0; w < 65536; w++ {
		if w%4096 == 0 {
			tr.reset(kv{"kind": "modes", "table": "word", "from": w})
		}
		rec := modeRecord(toFileMode(uint32(w)))
		rec["w"] = w
		rec["isreg"] = isRegular(uint32(w))
		rec["str"] = sshfx.FileMode(w).String()
		tr.emit("W", rec)
	}
	n := 0
	for _, typ := range []string{"reg", "dir", "symlink", "fifo", "socket", "chardev", "blockdev"} {
		for perm := 0; perm < 512; perm++ {
			for s := 0; s < 8; s++ {
				if n%4096 == 0 {
					tr.reset(kv{"kind": "modes", "table": "mode", "from": n})
				}
				n++
				fm := buildMode(typ, perm, s&4 != 0, s&2 != 0, s&1 != 0)
				w := fromFileMode(fm)
				rec := modeRecord(fm)
				rec["w"] = int(w)
				rec["chmod"] = int(toChmodPerm(fm))
				rec["back"] = toFileMode(w) == fm
				tr.emit("M", rec)
			}
		}
	}
}

type fsKind struct {
	name string
	make func(p string) error
}

func fsKinds() []fsKind {
	return []fsKind{
		{"regular", func(p string) error { return os.WriteFile(p, []byte("0123456789"), 0o644) }},
		{"setuid", func(p string) error {
			if err := os.WriteFile(p, []byte("x"), 0o755); err != nil {
				return err
			}
			return os.Chmod(p, 0o755|os.ModeSetuid|os.ModeSetgid)
		}},
		{"dir", func(p string) error { return os.Mkdir(p, 0o750) }},
		{"sticky", func(p string) error {
			if err := os.Mkdir(p, 0o777); err != nil {
				return err
			}
			return os.Chmod(p, 0o777|os.ModeSticky)
		}},
		{"symlink", func(p string) error { return os.Symlink("regular", p) }},
		{"dangling", func(p string) error { return os.Symlink("nowhere", p) }},
		{"fifo", func(p string) error { return syscall.Mkfifo(p, 0o640) }},
		{"socket", func(p string) error {
			l, err := net.Listen("unix", p)
			if err != nil {
				return err
			}
			l.(*net.UnixListener).SetUnlinkOnClose(false)
			return l.Close()
		}},
		{"chardev", func(p string) error { return syscall.Mknod(p, syscall.S_IFCHR|0o600, 1<<8|3) }},
		{"blockdev", func(p string) error { return syscall.Mknod(p, syscall.S_IFBLK|0o600, 7<<8|0) }},
	}
}

func sameInfo(a os.FileInfo, b os.FileInfo) kv {
	st := b.Sys().(*syscall.Stat_t)
	owner := false
	if fs, ok := a.Sys().(*FileStat); ok {
		owner = fs.UID == st.Uid && fs.GID == st.Gid
	}
	size := a.Size() == b.Size()
	if b.IsDir() || b.Mode()&os.ModeType != 0 && b.Mode()&os.ModeSymlink == 0 {
		size = true // sizes of directories and special files are not meaningful
	}
	return kv{"size": size, "mode": a.Mode() == b.Mode(), "mtime": a.ModTime().Unix() == b.ModTime().Unix(), "owner": owner,
		"gotmode": a.Mode().String(), "wantmode": b.Mode().String()}
}

func TestVerif_ModesFS(t *testing.T) {
	tr := newTracer(t)
	root := prepRoot(t, "modes")
	var skipped []string
	var made []string
	for _, k := range fsKinds() {
		if err := k.make(filepath.Join(root, k.name)); err != nil {
			skipped = append(skipped, k.name+": "+err.Error())
			continue
		}
		made = append(made, k.name)
	}
	tr.reset(kv{"kind": "modes", "table": "fs", "made": made})
	tr.emit("Note", kv{"skipped": strings.Join(skipped, "; ")})
	for _, alloc := range []bool{false, true} {
		sess := newSrvSession(t, tr, srvOpts{kind: "server", alloc: alloc, quiet: true})
		sess.s2c.onWrite = nil
		go func() { sess.srv.Serve(); sess.conn.Close(); close(sess.serveDone) }()
		cl, err := NewClientPipe(sess.s2c, pipeWriteCloser{p: sess.c2s})
		if err != nil {
			t.Fatal(err)
		}
		for _, name := range made {
			p := filepath.Join(root, name)
			want, _ := os.Lstat(p)
			got, err := cl.Lstat(p)
			if err != nil {
				tr.emit("FsStat", kv{"via": "Lstat", "name": name, "size": false, "mode": false, "mtime": false, "owner": false, "longok": true, "err": err.Error()})
			} else {
				e := sameInfo(got, want)
				e["via"], e["name"], e["longok"] = "Lstat", name, true
				tr.emit("FsStat", e)
			}
			if want2, err2 := os.Stat(p); err2 == nil {
				got2, err := cl.Stat(p)
				if err != nil {
					tr.emit("FsStat", kv{"via": "Stat", "name": name, "size": false, "mode": false, "mtime": false, "owner": false, "longok": true, "err": err.Error()})
				} else {
					e := sameInfo(got2, want2)
					e["via"], e["name"], e["longok"] = "Stat", name, true
					tr.emit("FsStat", e)
				}
			}
		}
		// the attributes of an OPEN file are those of the file, whatever has meanwhile happened to its name
		{
			hroot := prepRoot(t, "modes-handle")
			pa, pb := filepath.Join(hroot, "a.dat"), filepath.Join(hroot, "b.dat")
			os.WriteFile(pa, []byte("0123456789"), 0o640)
			os.Chtimes(pa, fixedTime, fixedTime)
			if hf, err := cl.Open(pa); err == nil {
				cl.Rename(pa, pb)
				os.WriteFile(pa, []byte("xyz"), 0o600) // another file takes over the old name
				want, _ := os.Stat(pb)
				got, err := hf.Stat()
				if err != nil {
					tr.emit("FsStat", kv{"via": "Fstat", "name": "renamed-while-open", "size": false, "mode": false, "mtime": false, "owner": false, "longok": true, "err": err.Error()})
				} else {
					e := sameInfo(got, want)
					e["via"], e["name"], e["longok"] = "Fstat", "renamed-while-open", true
					tr.emit("FsStat", e)
				}
				hf.Close()
			}
		}
		fis, err := cl.ReadDir(root)
		if err != nil {
			t.Fatalf("ReadDir: %v", err)
		}
		seen := 0
		for _, fi := range fis {
			want, err := os.Lstat(filepath.Join(root, fi.Name()))
			if err != nil {
				continue
			}
			seen++
			e := sameInfo(fi, want)
			e["via"], e["name"], e["longok"] = "ReadDir", fi.Name(), true
			tr.emit("FsStat", e)
		}
		if seen != len(made) {
			tr.emit("FsStat", kv{"via": "ReadDir", "name": "*", "size": false, "mode": false, "mtime": false, "owner": false, "longok": true, "err": "entries missing"})
		}
		cl.Close()
		sess.waitServe(5 * time.Second)
	}
	// long names: raw READDIR replies of both servers
	for _, kind := range []string{"server", "rs"} {
		s := newSrvSession(t, tr, srvOpts{kind: kind, quiet: true, quietHandlers: true, hopt: "lrk"})
		dir := root
		if s.v != nil {
			dir = "/d"
			s.v.addDir("/d")
			for i, typ := range []string{"reg", "dir", "symlink", "fifo", "socket", "chardev", "blockdev"} {
				n := &vnode{name: typ, data: make([]byte, 10+i), mode: buildMode(typ, 0o640+i, i%2 == 0, i%3 == 0, i%2 == 1), mtime: fixedTime,
					uid: uint32(4000 + i), gid: uint32(2000 + i), own: i % 4}
				s.v.mu.Lock()
				s.v.nodes["/d/"+typ] = n
				s.v.mu.Unlock()
			}
		}
		s.start()
		s.call(fInit(3))
		f, _ := s.call(fIDStr(tOpendir, 2, dir))
		for i := 0; i < 5; i++ {
			r, ok := s.call(fIDStr(tReaddir, uint32(3+i), f.Handle))
			if !ok || r.Typ != tName {
				break
			}
			for _, n := range r.Names {
				fields := strings.Fields(n.Long)
				sizeok, nameok := false, strings.HasSuffix(n.Long, " "+n.Name)
				if len(fields) >= 5 {
					sizeok = fields[4] == fmt.Sprint(n.A.Size)
				}
				str := ""
				if len(fields) > 0 {
					str = fields[0]
				}
				// the owner and group columns (numeric without a name lookup) against the structured uid / gid, when the entry carries them
				ownerok := true
				if n.A.Flags&2 != 0 && len(fields) >= 4 {
					// the os-backed server prints names where the ids resolve (documented: it looks them up like ls does)
					un, gn := fmt.Sprint(n.A.UID), fmt.Sprint(n.A.GID)
					if u, err := user.LookupId(un); err == nil && fields[2] == u.Username {
						un = u.Username
					}
					if g, err := user.LookupGroupId(gn); err == nil && fields[3] == g.Name {
						gn = g.Name
					}
					ownerok = fields[2] == un && fields[3] == gn
				}
				// the instrumented handler's entries report their owner in four ways (vnode.own): the structured attributes carry what was reported
				if s.v != nil {
					s.v.mu.Lock()
					if vn := s.v.nodes["/d/"+n.Name]; vn != nil {
						u, g, has := vn.wireOwner()
						if has != (n.A.Flags&2 != 0) || (has && (n.A.UID != u || n.A.GID != g)) {
							ownerok = false
						}
					}
					s.v.mu.Unlock()
				}
				tr.emit("LongName", kv{"server": kind, "name": hexs([]byte(n.Name)), "w": int(n.A.Perm & 0xffff), "str": str, "sizeok": sizeok, "nameok": nameok, "ownerok": ownerok, "long": n.Long, "uid": int(n.A.UID), "gid": int(n.A.GID)})
			}
		}
		s.endEOF()
		s.waitServe(5 * time.Second)
		s.conn.Close()
		waitFor(5*time.Second, s.finiSeen)
	}
	// set-attributes by flag subset
	for _, target := range []string{"file", "dir", "link"} {
		for _, via := range []string{"SETSTAT", "FSETSTAT"} {
			for flags := 0; flags < 16; flags++ {
				if via == "FSETSTAT" && target != "file" {
					continue
				}
				if target == "dir" && flags&1 != 0 {
					continue // a directory cannot be truncated
				}
				tr.reset(kv{"kind": "modes", "table": "setstat", "target": target, "via": via, "flags": flags})
				sroot := prepRoot(t, "setstat")
				fp := filepath.Join(sroot, "file")
				os.WriteFile(fp, []byte("0123456789"), 0o644)
				os.Mkdir(filepath.Join(sroot, "dir"), 0o755)
				os.Symlink("file", filepath.Join(sroot, "link"))
				p := filepath.Join(sroot, target)
				os.Chtimes(p, fixedTime, fixedTime)
				// the permission word carries setuid / setgid / sticky in most cases: a set-attributes request sets them too
				wperm := []uint32{0o600, 0o4711, 0o2750, 0o1777, 0o6755}[(flags+len(target)+len(via))%5]
				if flags&2 != 0 {
					// together with an owner change only the sticky bit is used: chown(2) itself clears setuid / setgid, in
					// whatever order a server applies the two (OpenSSH applies them in the same order as this package)
					wperm = []uint32{0o600, 0o1777}[flags%2]
				}
				wantMode := os.FileMode(wperm & 0o777)
				if wperm&0o4000 != 0 {
					wantMode |= os.ModeSetuid
				}
				if wperm&0o2000 != 0 {
					wantMode |= os.ModeSetgid
				}
				if wperm&0o1000 != 0 {
					wantMode |= os.ModeSticky
				}
				a := wattrs{Flags: uint32(flags), Size: 3, UID: 1, GID: 1, Perm: wperm, Atime: 1000, Mtime: 2000}
				s := newSrvSession(t, tr, srvOpts{kind: "server", quiet: true})
				s.start()
				s.call(fInit(3))
				var r wframe
				if via == "SETSTAT" {
					r, _ = s.call(fSetstat(9, p, a))
				} else {
					h, _ := s.call(fOpen(8, p, 3, wattrs{}))
					r, _ = s.call(fFsetstat(9, h.Handle, a))
				}
				s.endEOF()
				s.waitServe(5 * time.Second)
				s.conn.Close()
				waitFor(5*time.Second, s.finiSeen)
				st, _ := os.Stat(p)
				sys := st.Sys().(*syscall.Stat_t)
				size := st.Size() == 3
				if target == "dir" {
					size = false
				}
				tr.emit("Setstat", kv{"flags": flags, "via": via, "target": target, "status": int(r.Code), "chsize": size, "chperm": st.Mode()&(os.ModePerm|os.ModeSetuid|os.ModeSetgid|os.ModeSticky) == wantMode,
					"chowner": sys.Uid == 1 && sys.Gid == 1, "chtimes": st.ModTime().Unix() == 2000, "values": true})
			}
		}
	}
}
