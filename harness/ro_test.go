//go:build verif

package sftp

// C09: every case of the ReadOnly.tla decision table on a real NewServer(..., ReadOnly()).

import (
	"os"
	"path/filepath"
	"strings"
	"testing"
	"time"
)

type roCase struct {
	Typ      string `json:"typ"`
	Pflags   int    `json:"pflags"`
	Target   string `json:"target"`
	Aflags   int    `json:"aflags"`
	Via      string `json:"via"`
	Mutating bool   `json:"mutating"`
}

func roTree(t testing.TB, name string) string {
	root := prepRoot(t, name)
	writeFixed(t, filepath.Join(root, "file"), []byte("file-content-0123456789"))
	os.Mkdir(filepath.Join(root, "dir"), 0o755)
	writeFixed(t, filepath.Join(root, "dir", "child"), []byte("child"))
	os.Symlink("file", filepath.Join(root, "symlink"))
	os.Symlink("nowhere", filepath.Join(root, "dangling"))
	os.Chtimes(filepath.Join(root, "dir"), fixedTime.Add(10*time.Second), fixedTime)
	os.Chtimes(root, fixedTime.Add(10*time.Second), fixedTime)
	return root
}

// roRequest builds the request of a case; h is the handle for handle-based cases.
func roRequest(c roCase, root, h string) []byte {
	p := filepath.Join(root, c.Target)
	np := filepath.Join(root, "newname")
	a := wattrs{}
	if c.Aflags&1 != 0 {
		a.Flags |= 1
		a.Size = 3
	}
	if c.Aflags&2 != 0 {
		a.Flags |= 2
		a.UID, a.GID = 1, 1
	}
	if c.Aflags&4 != 0 {
		a.Flags |= 4
		a.Perm = 0o600
	}
	if c.Aflags&8 != 0 {
		a.Flags |= 8
		a.Atime, a.Mtime = 1000, 2000
	}
	if c.Aflags&16 != 0 {
		a.Flags |= 0x80000000
		a.Ext = [][2]string{{"x@y", "z"}}
	}
	id := uint32(50)
	switch {
	case c.Typ == "OPEN":
		return fOpen(id, p, uint32(c.Pflags), wattrs{})
	case c.Typ == "SETSTAT":
		return fSetstat(id, p, a)
	case c.Typ == "FSETSTAT":
		return fFsetstat(id, h, a)
	case c.Typ == "WRITE":
		return fWrite(id, h, 0, []byte("overwrite"))
	case c.Typ == "READ":
		return fRead(id, h, 0, 8)
	case c.Typ == "FSTAT":
		return fIDStr(tFstat, id, h)
	case c.Typ == "CLOSE":
		return fClose(id, h)
	case c.Typ == "READDIR":
		return fIDStr(tReaddir, id, h)
	case c.Typ == "REMOVE":
		return fIDStr(tRemove, id, p)
	case c.Typ == "MKDIR":
		return fMkdir(id, p)
	case c.Typ == "RMDIR":
		return fIDStr(tRmdir, id, p)
	case c.Typ == "RENAME":
		return fTwo(tRename, id, p, np)
	case c.Typ == "SYMLINK":
		return fTwo(tSymlink, id, p, np)
	case c.Typ == "READLINK":
		return fIDStr(tReadlink, id, p)
	case c.Typ == "REALPATH":
		return fIDStr(tRealpath, id, p)
	case c.Typ == "STAT":
		return fIDStr(tStat, id, p)
	case c.Typ == "LSTAT":
		return fIDStr(tLstat, id, p)
	case c.Typ == "OPENDIR":
		return fIDStr(tOpendir, id, p)
	case strings.HasPrefix(c.Typ, "EXT:"):
		name := c.Typ[4:]
		switch name {
		case "statvfs@openssh.com":
			return fExt(id, name, p)
		case "fsync@openssh.com":
			return fExt(id, name, h)
		default:
			return fExt(id, name, p, np)
		}
	}
	panic("bad case " + c.Typ)
}

// roRun performs one case on a server; returns the reply.
func roRun(t testing.TB, tr *tracer, c roCase, root string, readOnly bool, afterDenied bool) (wframe, bool) {
	s := newSrvSession(t, tr, srvOpts{kind: "server", readOnly: readOnly, quiet: true})
	s.start()
	defer func() {
		s.endEOF()
		s.waitServe(10 * time.Second)
		s.conn.Close()
		waitFor(5*time.Second, s.finiSeen)
	}()
	if _, ok := s.call(fInit(3)); !ok {
		return wframe{}, false
	}
	h := "nohandle"
	switch c.Via {
	case "filehandle":
		f, ok := s.call(fOpen(40, filepath.Join(root, "file"), 1, wattrs{}))
		if !ok || f.Typ != tHandle {
			t.Fatalf("permitted open failed: %+v", f)
		}
		h = f.Handle
	case "dirhandle":
		f, ok := s.call(fIDStr(tOpendir, 40, filepath.Join(root, "dir")))
		if !ok || f.Typ != tHandle {
			t.Fatalf("permitted opendir failed: %+v", f)
		}
		h = f.Handle
	}
	if afterDenied {
		// a modifying request is refused first: the classification of one request must not leak into the next
		if d, ok := s.call(fMkdir(45, filepath.Join(root, "denied-probe"))); !ok || d.Typ != tStatus || d.Code != 3 {
			return d, false
		}
	}
	return s.call(roRequest(c, root, h))
}

// roPipelined: modifying requests sent back-to-back to a read-only server whose output is read slowly: every one of them is
// answered with permission denied under ITS OWN id, in order.
func roPipelined(t testing.TB, tr *tracer, round int) {
	root := roTree(t, "ro")
	tr.reset(kv{"kind": "readonly", "typ": "PIPELINE", "pflags": 0, "target": "file", "aflags": 0, "via": "path", "round": round})
	before := treeDigest(root)
	s := newSrvSession(t, tr, srvOpts{kind: "server", readOnly: true, quiet: true})
	s.s2c.afterWrite = func(b []byte) { time.Sleep(2 * time.Millisecond) } // a slow reader: responses queue up in the server
	s.start()
	defer func() {
		s.endEOF()
		s.waitServe(10 * time.Second)
		s.conn.Close()
		waitFor(5*time.Second, s.finiSeen)
	}()
	s.call(fInit(3))
	p := func(n string) string { return filepath.Join(root, n) }
	frames := [][]byte{fMkdir(11, p("nd")), fIDStr(tRemove, 12, p("file")), fIDStr(tRmdir, 13, p("dir")), fTwo(tRename, 14, p("file"), p("file2")),
		fSetstat(15, p("file"), wattrs{Flags: 4, Perm: 0o600}), fTwo(tSymlink, 16, p("file"), p("ln2")), fOpen(17, p("new"), 2|8, wattrs{})}
	n0 := s.nResps()
	for _, fr := range frames {
		s.feed(fr, true)
	}
	ok := s.waitResps(n0+len(frames), 10*time.Second)
	for i := 0; ok && i < len(frames); i++ {
		r := s.resp(n0 + i)
		if r.Typ != tStatus || r.Code != 3 || r.ID != uint32(11+i) {
			ok = false
		}
	}
	tr.emit("ROPipe", kv{"ok": ok, "same": treeDigest(root) == before, "n": len(frames)})
}

func TestVerif_ReadOnly(t *testing.T) {
	tr := newTracer(t)
	for round := 0; round < 3; round++ {
		roPipelined(t, tr, round)
	}
	var cases []roCase
	if !loadScenarios(t, "VERIF_SCEN", &cases) {
		t.Fatal("C09 needs the case table exported from ReadOnlyEnum.tla (VERIF_SCEN)")
	}
	for _, c := range cases {
		tr.reset(kv{"kind": "readonly", "typ": c.Typ, "pflags": c.Pflags, "target": c.Target, "aflags": c.Aflags, "via": c.Via})
		root := roTree(t, "ro")
		before := treeDigest(root)
		f, ok := roRun(t, tr, c, root, true, false)
		same := treeDigest(root) == before
		wtyp, wcode := "", 0
		if !c.Mutating {
			// the same request on a writable server and an identical tree: reading requests must keep working
			wroot := roTree(t, "ro") // same path: replies that contain paths are comparable
			wf, _ := roRun(t, tr, c, wroot, false, false)
			wtyp, wcode = wf.T(), int(wf.Code)
			// ... and right after a refused modifying request as well
			root2 := roTree(t, "ro")
			before2 := treeDigest(root2)
			f2, ok2 := roRun(t, tr, c, root2, true, true)
			rt2 := f2.T()
			if !ok2 {
				rt2 = "NOREPLY"
			}
			tr.emit("ROCase", kv{"typ": c.Typ, "pflags": c.Pflags, "target": c.Target, "aflags": c.Aflags, "via": c.Via, "after": "denied",
				"same": treeDigest(root2) == before2, "rtyp": rt2, "code": int(f2.Code), "wtyp": wtyp, "wcode": wcode})
		}
		rtyp := f.T()
		if !ok {
			rtyp = "NOREPLY"
		}
		tr.emit("ROCase", kv{"typ": c.Typ, "pflags": c.Pflags, "target": c.Target, "aflags": c.Aflags, "via": c.Via,
			"same": same, "rtyp": rtyp, "code": int(f.Code), "wtyp": wtyp, "wcode": wcode})
	}
}
