//go:build verif

package sftp

// C04: the transport fails at every byte offset of the server->client stream (EOF or error) or at every
// client->server write; single calls and multi-chunk transfers are in flight, other goroutines start new
// calls around the failure.  Logged: return of every call (and whether its reply had been received
// completely before the failure), Wait, Close, goroutines after Close.

import (
	"bytes"
	"fmt"
	"io"
	"sync"
	"testing"
	"time"
)

type c04Fault struct {
	kind     string // "none" | "rdcut" | "wrfail"
	at       int
	err      bool // rdcut: error instead of EOF
	halfOpen bool // the transport's Close is a no-op (writes keep succeeding); the receiver's broadcast is stalled for a moment
	// so that callers arrive exactly while it runs (the interleaving of the shutdown with callers registering new requests)
	mini bool // one goroutine, a fixed sequence of single-packet operations: the reply stream is the same in every run,
	// so that EVERY byte position of it (length prefix, type byte, id, body of every reply kind) can be cut
}

// c04OnBcast, when set, is called at every delivery of broadcastErr (hook cc.deliver.bcast, under the inflight mutex).
var c04OnBcast func()

// case numbering for crash attribution (the driver restarts the sweep behind a case that killed the process)
var c04Case int
var c04Skip = envInt("VERIF_SKIP", 0)

type c04Op struct {
	g, n     int
	op, arg  string
	typ      byte // request type of single-request ops (0 = multi-request op)
	err      error
	returned bool
}

// c04Session runs the fixed concurrent session under one fault. Returns the number of bytes the peer wrote and
// the number of client writes (for enumerating faults).
func c04Session(t testing.TB, tr *tracer, f c04Fault, variant int) (int, int) {
	c04Case++
	if f.kind != "none" && c04Case <= c04Skip {
		return 0, 0
	}
	tr.reset(kv{"kind": "connloss", "fault": f.kind, "at": f.at, "err": f.err, "variant": variant, "mini": f.mini, "halfopen": f.halfOpen, "case": c04Case})
	tr.flush()                    // a crash of this process is attributed to this case
	base := len(sftpGoroutines()) // goroutines leaked by earlier (already reported) sessions
	pr := newPeer(t, tr)
	pr.fileSize = 650
	pr.halfOpen = f.halfOpen
	bcastStarted := make(chan struct{})
	var bonce sync.Once
	c04OnBcast = nil
	if f.halfOpen {
		c04OnBcast = func() {
			bonce.Do(func() { close(bcastStarted); time.Sleep(5 * time.Millisecond) })
		}
		defer func() { c04OnBcast = nil }()
	}
	switch f.kind {
	case "rdcut":
		var e error
		if f.err {
			e = errInjected
		}
		pr.s2c.setCut(f.at, e)
	case "wrfail":
		pr.c2s.failAt = f.at
		if f.err {
			pr.c2s.failErr = io.EOF // what an ssh channel's Write returns once the peer is gone
		}
	}
	reached := make(chan struct{})
	var once sync.Once
	if f.kind == "rdcut" {
		prev := pr.s2c.onWrite
		pr.s2c.onWrite = func(b []byte) {
			if prev != nil {
				prev(b)
			}
			if pr.s2c.nwrit+len(b) >= f.at {
				once.Do(func() { close(reached) })
			}
		}
	} else {
		once.Do(func() { close(reached) })
	}
	var mu sync.Mutex
	var ops []*c04Op
	newOp := func(g int, n *int, op, arg string, typ byte) *c04Op {
		*n++
		o := &c04Op{g: g, n: *n, op: op, arg: arg, typ: typ}
		mu.Lock()
		ops = append(ops, o)
		mu.Unlock()
		tr.emit("Call", kv{"g": g, "n": o.n, "op": op, "arg": arg})
		return o
	}
	done := func(o *c04Op, err error) {
		mu.Lock()
		o.err, o.returned = err, true
		mu.Unlock()
		tr.emit("Ret", kv{"g": o.g, "n": o.n, "op": o.op, "got": "", "want": "", "err": ""})
	}
	mp := []int{100, 64, 200}[variant%3]
	opts := []ClientOption{MaxPacketChecked(mp), MaxConcurrentRequestsPerFile([]int{3, 64, 2}[variant%3]), UseConcurrentWrites(variant%2 == 0)}
	if variant%4 == 3 {
		opts = append(opts, UseConcurrentReads(false))
	}
	type res struct {
		cl  *Client
		err error
	}
	rc := make(chan res, 1)
	go func() {
		defer func() {
			if r := recover(); r != nil {
				tr.emit("Panic", kv{"where": "NewClientPipe", "msg": fmt.Sprint(r)})
				rc <- res{nil, fmt.Errorf("panic: %v", r)}
			}
		}()
		cl, err := pr.client(opts...)
		rc <- res{cl, err}
	}()
	var cl *Client
	select {
	case r := <-rc:
		cl = r.cl
		n := 0
		o := newOp(0, &n, "NewClient", "", 0)
		done(o, r.err)
		if r.err != nil {
			// construction failed: it must have failed cleanly (nothing left behind)
			left := waitNoSftpGoroutines(3 * time.Second)
			musterr := f.kind != "none"
			tr.emit("Judge", kv{"g": 0, "n": 1, "op": "NewClient", "err": errStr(r.err), "mustok": !musterr, "musterr": false})
			tr.emit("End", kv{"kind": "connloss", "hung": 0, "waitret": true, "closeret": true, "goroutines": len(left)})
			return pr.s2c.nwrit, pr.c2s.writes
		}
	case <-time.After(15 * time.Second):
		tr.emit("End", kv{"kind": "connloss", "hung": 1, "waitret": false, "closeret": false, "goroutines": len(sftpGoroutines())})
		return 0, 0
	}
	var wg sync.WaitGroup
	worker := func(g int, body func(g int, n *int)) {
		wg.Add(1)
		go func() {
			defer wg.Done()
			defer func() {
				if r := recover(); r != nil {
					tr.emit("Panic", kv{"where": fmt.Sprintf("g%d", g), "msg": fmt.Sprint(r)})
				}
			}()
			n := 0
			body(g, &n)
		}()
	}
	single := func(g int, n *int, k int, tag string) {
		arg := fmt.Sprintf("/c04/g%d/%s%d", g, tag, k)
		switch k % 4 {
		case 0:
			o := newOp(g, n, "Stat", arg, tStat)
			_, err := cl.Stat(arg)
			done(o, err)
		case 1:
			o := newOp(g, n, "Lstat", arg, tLstat)
			_, err := cl.Lstat(arg)
			done(o, err)
		case 2:
			o := newOp(g, n, "ReadLink", arg, tReadlink)
			_, err := cl.ReadLink(arg)
			done(o, err)
		default:
			o := newOp(g, n, "Mkdir", arg, tMkdir)
			err := cl.Mkdir(arg)
			done(o, err)
		}
	}
	if f.mini {
		worker(1, func(g int, n *int) {
			for k := 0; k < 4; k++ {
				single(g, n, k, "m")
			}
			o := newOp(g, n, "Open", "/c04/file", 0)
			fl, err := cl.Open("/c04/file")
			done(o, err)
			if err == nil {
				o = newOp(g, n, "ReadAt", "40", 0)
				_, err = fl.ReadAt(make([]byte, 40), 10)
				done(o, err)
				o = newOp(g, n, "Close", "", 0)
				err = fl.Close()
				done(o, err)
			}
			o = newOp(g, n, "ReadDir", "/c04/dir", 0)
			_, err = cl.ReadDir("/c04/dir")
			done(o, err)
		})
	}
	// g1: single calls
	workerFull := worker
	if f.mini {
		workerFull = func(int, func(int, *int)) {}
	}
	worker = workerFull
	worker(1, func(g int, n *int) {
		for k := 0; k < 6; k++ {
			single(g, n, k, "s")
		}
	})
	// g2: multi-chunk reads
	worker(2, func(g int, n *int) {
		o := newOp(g, n, "Open", "/c04/file", 0)
		fl, err := cl.Open("/c04/file")
		done(o, err)
		if err != nil {
			return
		}
		o = newOp(g, n, "ReadAt", "600", 0)
		_, err = fl.ReadAt(make([]byte, 600), 10)
		done(o, err)
		o = newOp(g, n, "WriteTo", "", 0)
		var wn int64
		wn, err = fl.WriteTo(io.Discard)
		done(o, err)
		if err == nil && wn != int64(pr.fileSize) {
			// a transfer cut short by the failure must not be reported as complete
			tr.emit("Judge", kv{"g": g, "n": o.n, "op": "WriteTo", "err": "", "mustok": false, "musterr": true})
		}
		o = newOp(g, n, "Close", "", 0)
		err = fl.Close()
		done(o, err)
	})
	// g3: multi-chunk writes and a listing
	worker(3, func(g int, n *int) {
		o := newOp(g, n, "Create", "/c04/out", 0)
		fl, err := cl.Create("/c04/out")
		done(o, err)
		if err == nil {
			o = newOp(g, n, "WriteAt", "500", 0)
			_, err = fl.WriteAt(posData(500, 9), 0)
			done(o, err)
			o = newOp(g, n, "ReadFrom", "450", 0)
			_, err = fl.ReadFrom(bytes.NewReader(posData(450, 7)))
			done(o, err)
			o = newOp(g, n, "ReadFromConc", "450", 0)
			_, err = fl.ReadFromWithConcurrency(bytes.NewReader(posData(450, 8)), 3)
			done(o, err)
		}
		o = newOp(g, n, "ReadDir", "/c04/dir", 0)
		_, err = cl.ReadDir("/c04/dir")
		done(o, err)
	})
	// g4, g5: callers that register around / after the failure
	for g := 4; g <= 5; g++ {
		worker(g, func(g int, n *int) {
			if f.halfOpen {
				select {
				case <-bcastStarted: // the receiver is inside broadcastErr right now
				case <-time.After(300 * time.Millisecond):
				}
			} else {
				select {
				case <-reached:
				case <-time.After(300 * time.Millisecond):
				}
			}
			for k := 0; k < 3; k++ {
				single(g, n, k, "late")
			}
		})
	}
	all := make(chan struct{})
	go func() { wg.Wait(); close(all) }()
	hung := 0
	select {
	case <-all:
	case <-time.After(20 * time.Second):
		mu.Lock()
		for _, o := range ops {
			if !o.returned {
				hung++
			}
		}
		mu.Unlock()
	}
	waitRet, closeRet := true, true
	waitCh := make(chan error, 1)
	go func() { waitCh <- cl.Wait() }()
	lost := f.kind == "rdcut" && pr.s2c.wasCut() // the stream really ended (a cut beyond the end of the session is no fault)
	if f.halfOpen && !lost {
		// the cut offset lies beyond the end of this run's reply stream, so nothing was lost; on a link whose Close does nothing the
		// peer never learns that the client is done: end the server->client stream by hand so that Close and Wait can return
		pr.s2c.CloseWrite(nil)
	}
	if lost {
		select {
		case <-waitCh:
		case <-time.After(10 * time.Second):
			waitRet = false
		}
	}
	closeCh := make(chan error, 1)
	go func() { closeCh <- cl.Close() }()
	select {
	case <-closeCh:
	case <-time.After(10 * time.Second):
		closeRet = false
	}
	if !lost {
		select {
		case <-waitCh:
		case <-time.After(10 * time.Second):
			waitRet = false
		}
	}
	var left []string
	waitFor(3*time.Second, func() bool { left = sftpGoroutines(); return len(left) <= base })
	if len(left) <= base {
		left = nil
	}
	// judge the single-request calls: was the reply completely received before the failure?
	reqs := pr.requests()
	pr.mu.Lock()
	ends := pr.ends
	pr.mu.Unlock()
	mu.Lock()
	for _, o := range ops {
		if o.op == "ReadDir" && o.returned && lost {
			// a multi-request operation: the listing is complete only if the READDIR answered with EOF (the peer's third) was
			// received completely before the stream ended; otherwise the call was outstanding at the loss and must fail
			n := 0
			for _, r := range reqs {
				if r.Typ == tReaddir && r.Handle == peerDirHandle(o.arg) && !r.Bad {
					if end, answered := ends[r.ID]; answered && end <= f.at {
						n++
					}
				}
			}
			if n < 3 {
				tr.emit("Judge", kv{"g": o.g, "n": o.n, "op": o.op, "err": errStr(o.err), "mustok": false, "musterr": true})
			}
			continue
		}
		if o.typ == 0 || !o.returned {
			continue
		}
		var id uint32
		found := false
		for _, r := range reqs {
			if r.Typ == o.typ && r.Path == o.arg && !r.Bad {
				id, found = r.ID, true
			}
		}
		mustok, musterr := false, false
		switch f.kind {
		case "none":
			mustok = true
		case "rdcut":
			if !lost {
				mustok = true
				break
			}
			end, answered := ends[id]
			complete := found && answered && end <= f.at
			mustok, musterr = complete, !complete
		case "wrfail":
			// a request the peer received completely is answered (the read side is intact); one it did not receive must fail
			mustok, musterr = found, !found
		}
		tr.emit("Judge", kv{"g": o.g, "n": o.n, "op": o.op, "err": errStr(o.err), "mustok": mustok, "musterr": musterr})
	}
	mu.Unlock()
	stack := ""
	if len(left) > 0 {
		stack = left[0]
		if len(stack) > 800 {
			stack = stack[:800]
		}
	}
	tr.emit("End", kv{"kind": "connloss", "hung": hung, "waitret": waitRet, "closeret": closeRet, "goroutines": len(left), "stack": stack})
	if hung != 0 || !waitRet || !closeRet || len(left) > 0 {
		c04Failures++
	}
	if hung != 0 || !closeRet {
		pr.c2s.CloseRead()
		pr.s2c.CloseWrite(io.ErrClosedPipe)
	}
	return pr.s2c.nwrit, pr.c2s.writes
}

// after a few sessions that hang, the rest of the sweep would only repeat the finding slowly
var c04Failures int

func TestVerif_ConnLoss(t *testing.T) {
	tr := newTracer(t)
	ids := &chanIDs{}
	base := clientHook(tr, ids, nil)
	installHook(t, func(point string, a, b uint64) {
		base(point, a, b)
		if point == "cc.deliver.bcast" {
			if h := c04OnBcast; h != nil {
				h()
			}
		}
	})
	variants := []int{0, 1}
	if vThorough() {
		variants = []int{0, 1, 2, 3, 4, 5}
	}
	for _, v := range variants {
		if c04Failures >= 3 {
			tr.emit("Note", kv{"aborted": "three sessions did not return; the rest of the sweep is skipped"})
			return
		}
		if v < 2 {
			// the deterministic mini session: every byte position of its reply stream, ending with EOF and with an error
			ML, _ := c04Session(t, tr, c04Fault{kind: "none", mini: true}, v)
			for k := 0; k <= ML+1 && c04Failures < 3; k++ {
				if !vThorough() && v == 1 && k%3 != int(vSeed())%3 {
					continue
				}
				c04Session(t, tr, c04Fault{kind: "rdcut", at: k, err: false, mini: true}, v)
				c04Session(t, tr, c04Fault{kind: "rdcut", at: k, err: true, mini: true}, v)
			}
		}
		L, W := c04Session(t, tr, c04Fault{kind: "none"}, v)
		stride := 12
		if vThorough() {
			stride = 1
		}
		off := int(vSeed()) % stride
		for k := off; k <= L+2 && c04Failures < 3; k += stride {
			c04Session(t, tr, c04Fault{kind: "rdcut", at: k, err: k%2 == 1}, v)
		}
		for _, k := range []int{0, 1, 4, 5, 8, 9, 12, 13} { // the handshake and the first frames always
			if c04Failures >= 3 {
				break
			}
			c04Session(t, tr, c04Fault{kind: "rdcut", at: k, err: k%2 == 0}, v)
		}
		// a half-open link (Close does not stop writes), with callers arriving while the receiver broadcasts the loss
		hstride := 40
		if vThorough() {
			hstride = 7
		}
		for k := 20 + int(vSeed())%hstride; k <= L && c04Failures < 3; k += hstride {
			c04Session(t, tr, c04Fault{kind: "rdcut", at: k, err: k%2 == 1, halfOpen: true}, v)
		}
		wstride := 2
		if vThorough() {
			wstride = 1
		}
		for j := 1 + int(vSeed())%wstride; j <= W+1 && c04Failures < 3; j += wstride {
			c04Session(t, tr, c04Fault{kind: "wrfail", at: j, err: j%2 == 0}, v)
		}
	}
}
