//go:build verif

package sftp

// C19: the Handshake.tla tables replayed on the real code: SetSFTPExtensions + INIT replies of both servers +
// what the client reports; arbitrary handshake replies against NewClientPipe; extended-request names.

import (
	"encoding/binary"
	"os"
	"path/filepath"
	"sort"
	"strconv"
	"strings"
	"testing"
	"time"
)

type hsCase struct {
	Kind   string   `json:"kind"`
	Before []string `json:"before"`
	Req    []string `json:"req"`
	Ver    string   `json:"ver"`
	Typ    int      `json:"typ"`
	Exts   string   `json:"exts"`
	Frame  string   `json:"frame"`
	Adv    []string `json:"adv"`
	Name   string   `json:"name"`
}

func strs(s []string) []string {
	if s == nil {
		return []string{}
	}
	return s
}

func serverInitReply(t testing.TB, tr *tracer, kind string) (wframe, bool) {
	s := newSrvSession(t, tr, srvOpts{kind: kind, quiet: true, quietHandlers: true})
	s.start()
	defer func() {
		s.endEOF()
		s.waitServe(10 * time.Second)
		s.conn.Close()
		waitFor(5*time.Second, s.finiSeen)
	}()
	return s.call(fInit(3))
}

func extNames(f wframe) []string {
	out := []string{}
	for _, e := range f.Exts {
		out = append(out, e[0])
	}
	return out
}

func hsConfig(t testing.TB, tr *tracer, c hsCase) {
	if err := SetSFTPExtensions(c.Before...); err != nil {
		// a valid list was refused: report it as the outcome of a configuration attempt of its own
		tr.emit("HSConfig", kv{"before": strs(c.Before), "req": strs(c.Before), "ok": false, "srvadv": strs(c.Before), "rsadv": strs(c.Before),
			"clientsees": strs(c.Before), "version": 3})
		return
	}
	err := SetSFTPExtensions(c.Req...)
	sv, _ := serverInitReply(t, tr, "server")
	rv, _ := serverInitReply(t, tr, "rs")
	// what a real client sees from a real server
	s := newSrvSession(t, tr, srvOpts{kind: "server", quiet: true})
	s.s2c.onWrite = nil
	go func() { s.srv.Serve(); s.conn.Close(); close(s.serveDone) }()
	cl, cerr := NewClientPipe(s.s2c, pipeWriteCloser{p: s.c2s})
	sees := []string{}
	if cerr == nil {
		seen := map[string]bool{}
		for _, n := range extNames(sv) {
			if d, ok := cl.HasExtension(n); ok {
				if n == "statvfs@openssh.com" && d != "2" || n != "statvfs@openssh.com" && d != "1" {
					n += "=" + d
				}
				sees = append(sees, n)
				seen[n] = true
			}
		}
		var extra []string
		for k := range cl.ext {
			if !seen[k] && !seen[k+"="+cl.ext[k]] {
				extra = append(extra, k)
			}
		}
		sort.Strings(extra)
		sees = append(sees, extra...)
		cl.Close()
	}
	s.waitServe(5 * time.Second)
	tr.emit("HSConfig", kv{"before": strs(c.Before), "req": strs(c.Req), "ok": err == nil, "srvadv": extNames(sv), "rsadv": extNames(rv),
		"clientsees": sees, "version": int(sv.Ver)})
}

func hsReplyBytes(c hsCase) []byte {
	v, _ := strconv.ParseUint(c.Ver, 10, 32)
	w := new(wb).u32(uint32(v))
	switch c.Exts {
	case "one":
		w.str("statvfs@openssh.com").str("2")
	case "two":
		w.str("statvfs@openssh.com").str("2").str("fsync@openssh.com").str("1")
	case "badpair":
		w.str("statvfs@openssh.com")
	case "hugelen":
		w.u32(0x7fffffff).raw([]byte("abc"))
	}
	fr := mkFrame(byte(c.Typ), w.b)
	switch c.Frame {
	case "zero":
		binary.BigEndian.PutUint32(fr, 0)
	case "toolong":
		binary.BigEndian.PutUint32(fr, 256*1024+1)
	case "cut1":
		fr = fr[:len(fr)-1]
	case "cut5":
		fr = fr[:max(len(fr)-5, 4)]
	case "cutall":
		fr = fr[:4]
	case "eof":
		fr = nil
	}
	return fr
}

func hsReply(t testing.TB, tr *tracer, c hsCase) {
	base := len(sftpGoroutines())
	s2c, c2s := newBpipe(), newBpipe()
	s2c.Write(hsReplyBytes(c))
	s2c.CloseWrite(nil)
	type res struct {
		cl  *Client
		err error
	}
	ch := make(chan res, 1)
	go func() {
		cl, err := NewClientPipe(s2c, pipeWriteCloser{p: c2s})
		ch <- res{cl, err}
	}()
	established, extsok, clean := false, true, true
	select {
	case r := <-ch:
		established = r.err == nil
		if established {
			want := map[string]string{}
			switch c.Exts {
			case "one":
				want["statvfs@openssh.com"] = "2"
			case "two":
				want["statvfs@openssh.com"] = "2"
				want["fsync@openssh.com"] = "1"
			}
			extsok = len(r.cl.ext) == len(want)
			for k, v := range want {
				if d, ok := r.cl.HasExtension(k); !ok || d != v {
					extsok = false
				}
			}
			done := make(chan struct{})
			go func() { r.cl.Close(); close(done) }()
			select {
			case <-done:
			case <-time.After(5 * time.Second):
				clean = false
			}
		}
	case <-time.After(5 * time.Second):
		clean = false
		s2c.CloseRead()
	}
	if !waitFor(3*time.Second, func() bool { return len(sftpGoroutines()) <= base }) {
		clean = false
	}
	// failing cleanly includes hanging up: the caller gets no *Client it could close, so the client's side of the
	// connection must have been closed by the constructor itself (the peer would wait forever otherwise)
	if !established {
		c2s.mu.Lock()
		hungUp := c2s.wclosed
		c2s.mu.Unlock()
		if !hungUp {
			clean = false
		}
	}
	tr.emit("HSReply", kv{"ver": c.Ver, "typ": c.Typ, "exts": c.Exts, "frame": c.Frame, "established": established, "extsok": extsok, "clean": clean})
}

func hsExt(t testing.TB, tr *tracer, c hsCase, root string, ro bool) {
	adv := append([]string(nil), c.Adv...)
	sort.Strings(adv)
	if err := SetSFTPExtensions(adv...); err != nil {
		tr.emit("HSConfig", kv{"before": strs(adv), "req": strs(adv), "ok": false, "srvadv": strs(adv), "rsadv": strs(adv), "clientsees": strs(adv), "version": 3})
		return
	}
	os.WriteFile(filepath.Join(root, "a"), []byte("a"), 0o644)
	os.Remove(filepath.Join(root, "b"))
	s := newSrvSession(t, tr, srvOpts{kind: "server", quiet: true, readOnly: ro})
	s.start()
	defer func() {
		s.endEOF()
		s.waitServe(10 * time.Second)
		s.conn.Close()
		waitFor(5*time.Second, s.finiSeen)
	}()
	s.call(fInit(3))
	name := c.Name
	if name == "LONG" {
		name = strings.Repeat("x", 300) + "@example.com"
	}
	var f wframe
	switch name {
	case "statvfs@openssh.com":
		f, _ = s.call(fExt(7, name, root))
	default:
		f, _ = s.call(fExt(7, name, filepath.Join(root, "a"), filepath.Join(root, "b")))
	}
	unsupported := f.Typ == tStatus && f.Code == 8
	served := (f.Typ == tStatus && f.Code == 0) || f.Typ == tExtReply
	st, ok := s.call(fIDStr(tStat, 8, root))
	tr.emit("HSExt", kv{"ro": ro, "adv": strs(adv), "name": c.Name, "served": served, "unsupported": unsupported, "sessionok": ok && st.Typ == tAttrs,
		"rtyp": f.T(), "code": int(f.Code)})
}

// hsExtRS: the handler-based server and extended requests it does not know: answered "operation unsupported", and the
// session goes on
func hsExtRS(t testing.TB, tr *tracer, c hsCase) {
	name := c.Name
	if name == "LONG" {
		name = strings.Repeat("x", 300) + "@example.com"
	}
	s := newSrvSession(t, tr, srvOpts{kind: "rs", quiet: true, quietHandlers: true, hopt: "opvlrk"})
	s.v.addFile("/a", []byte("a"))
	s.start()
	defer func() {
		s.endEOF()
		s.waitServe(10 * time.Second)
		s.conn.Close()
		waitFor(5*time.Second, s.finiSeen)
	}()
	s.call(fInit(3))
	f, _ := s.call(fExt(7, name, "/a", "/b"))
	st, ok := s.call(fIDStr(tStat, 8, "/a"))
	tr.emit("HSExt", kv{"ro": false, "adv": []string{}, "name": c.Name, "served": false, "unsupported": f.Typ == tStatus && f.Code == 8, "sessionok": ok && st.Typ == tAttrs,
		"rtyp": f.T(), "code": int(f.Code), "server": "rs"})
}

func TestVerif_Handshake(t *testing.T) {
	tr := newTracer(t)
	var cases []hsCase
	if !loadScenarios(t, "VERIF_SCEN", &cases) {
		t.Fatal("C19 needs the tables exported from HandshakeEnum.tla (VERIF_SCEN)")
	}
	defer SetSFTPExtensions("hardlink@openssh.com", "posix-rename@openssh.com", "statvfs@openssh.com")
	root := prepRoot(t, "hs")
	for i, c := range cases {
		// quick tier: all configuration and extension cases, a seeded third of the reply cases (all accepting ones)
		if !vThorough() && c.Kind == "reply" && !(c.Typ == 2 && c.Ver == "3" && c.Frame == "ok") && (i+int(vSeed()))%3 != 0 {
			continue
		}
		tr.reset(kv{"kind": "handshake", "case": c.Kind, "i": i})
		switch c.Kind {
		case "config":
			hsConfig(t, tr, c)
		case "reply":
			hsReply(t, tr, c)
		case "ext":
			hsExt(t, tr, c, root, false)
			tr.reset(kv{"kind": "handshake", "case": "ext-readonly", "i": i})
			hsExt(t, tr, c, root, true)
			if !map[string]bool{"statvfs@openssh.com": true, "posix-rename@openssh.com": true, "hardlink@openssh.com": true}[c.Name] && len(c.Adv) == 3 {
				tr.reset(kv{"kind": "handshake", "case": "ext-requestserver", "i": i})
				hsExtRS(t, tr, c)
			}
		}
	}
}
