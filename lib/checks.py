"""Per-property checks. Each function: model runs (TLC) -> scenario export -> harness on the real
code -> trace validation (TLC) -> evidence + verdict."""
import json, os, re, sys
import vlib
from vlib import Machinery, log


def _key(prop, trace_head, inv, extra=""):
    """Signature of a violation for known-finding matching: property, server kind, end mode, invariant."""
    parts = [inv]
    for f in ("server", "end", "kind", "api", "op"):
        if f in trace_head and isinstance(trace_head[f], (str, int)):
            parts.append("%s=%s" % (f, trace_head[f]))
    if extra:
        parts.append(extra)
    return ",".join(parts)


def report_trace_violations(c, found, module):
    for f in found:
        head = f["trace"][0] if f["trace"] else {}
        key = _key(c.prop, head, f["invariant"])
        desc = "%s violated at event %s" % (f["invariant"], json.dumps(f["line"])[:300])
        c.violation(key, desc, {"module": module, "invariant": f["invariant"], "tlc_state": f["state"],
                                "scenario": head, "trace": f["trace"][:400]})


# ------------------------------------------------------------------ scenarios from the model

def export_pipeline_scenarios(c, n):
    """Behaviours of PktMgr.tla (simulation, seeded) -> (program, completion order, end) scenarios."""
    r = vlib.tlc("PktMgrScen", "PktMgrScen.cfg", c.wd, timeout=300, workers=1, simulate="num=%d" % n, depth=300,
                 extra=["-seed", str(c.seed), "-deadlock"])
    if not r.ok:
        raise Machinery("scenario export failed: %s %s\n%s" % (r.violated, r.error, r.raw[-2000:]))
    scs = []
    for line in r.raw.splitlines():
        m = re.match(r'<<"SCEN", "(.*)">>$', line.strip())
        if not m:
            continue
        sched = json.loads(m.group(1).encode().decode("unicode_escape"))
        prog, rel, eof_at, nrecv = [], [], None, 0
        for i, s in enumerate(sched):
            if s["a"] == "recv":
                nrecv += 1
                k = s["k"]
                if k == "R":
                    k = "R" if nrecv % 2 else "W"
                prog.append({"k": k, "h": int(s["h"][1:])})
            elif s["a"] == "end":
                o = s["o"]
                if prog[o - 1]["k"] in ("R", "W"):
                    rel.append(o)
            elif s["a"] == "eof":
                eof_at = i
        scs.append({"prog": prog, "rel": rel, "end": "eof" if len(scs) % 3 == 0 else "open", "src": "tlc"})
    if not scs:
        raise Machinery("no scenarios exported")
    path = os.path.join(c.wd, "scen_pipeline.json")
    json.dump(scs, open(path, "w"))
    c.cov["harness"]["tlc_scenarios"] = len(scs)
    c.cov["tlc_runs"].append({"module": "PktMgrScen", "cfg": "PktMgrScen.cfg", "mode": "simulate", "scenarios": len(scs),
                              "generated": r.generated, "wall_s": round(r.wall, 1)})
    c.cov["samples"].append({"kind": "scenario exported from PktMgr.tla", "scenario": scs[c.seed % len(scs)]})
    return path


def _pktmgr_models(c, invs_abl):
    c.model("PktMgr", "PktMgr.quick.cfg", note="exhaustive: NW=2, caps=1, <=4 requests, 1 handle, kinds R/C/M/X, allocator on")
    c.model("PktMgr", "PktMgr.live.cfg", note="liveness eof ~> Terminated under WF, <=3 requests")
    for mech, inv in invs_abl:
        c.model("PktMgr", "PktMgr.abl_%s.cfg" % mech, must="fail", expect=inv, note="mechanism %s removed" % mech)
    if c.tier == "thorough":
        c.model("PktMgr", "PktMgr.thorough.cfg", timeout=3000, note="exhaustive: <=5 requests, 2 handles")
        c.model("PktMgr", "PktMgr.thorough2.cfg", timeout=3000, note="exhaustive: NW=3, caps=2, <=4 requests")


def _count_pipeline(c, path):
    ev = vlib.read_ndjson(path)
    traces = vlib.split_traces(ev)
    c.cov["evaluations"] += len(traces)
    distinct = set()
    for t in traces:
        h = t[0]
        distinct.add(json.dumps([h.get("server"), h.get("end"), h.get("prog"), h.get("rel")], sort_keys=True))
    c.cov["distinct_nontrivial"] += len(distinct)
    return traces


def check_C02(c):
    _pktmgr_models(c, [("DrainOnFini", "Inv_C02_AllAnswered")])
    scen = export_pipeline_scenarios(c, 60 if c.tier == "quick" else 1500)
    rc, out, path = c.run("TestVerif_Pipeline", env={"VERIF_SCEN": scen}, timeout=3000)
    _count_pipeline(c, path)
    c.cov["rule"] = ("a case is one (server configuration, request program, completion order, end mode) replayed on the real server; "
                     "distinct = distinct such tuples; programs come from TLC simulation of PktMgr.tla, the seeded generator and fixed attack shapes")
    found = c.validate("TraceServer", "TraceServer.C02.cfg", path)
    report_trace_violations(c, found, "TraceServer")
    c.assumptions += ["in-memory transport (unbounded pipes); Go scheduler not controlled, completion order forced through handler/worker gates",
                      "response legality table = SFTP v3 draft-02 section 7 + OpenSSH PROTOCOL"]
    return c.finish()


def check_C14(c):
    _pktmgr_models(c, [("Barrier", "Inv_C14_NoRWAfterClose")])
    scen = export_pipeline_scenarios(c, 60 if c.tier == "quick" else 1500)
    rc, out, path = c.run("TestVerif_Pipeline", env={"VERIF_SCEN": scen}, timeout=3000)
    _count_pipeline(c, path)
    c.cov["rule"] = ("a case is one (server configuration, request program, completion order, end mode); reads/writes are held at a gate "
                     "and the close is pipelined behind them; distinct = distinct tuples")
    found = c.validate("TraceServer", "TraceServer.C14.cfg", path)
    report_trace_violations(c, found, "TraceServer")
    c.assumptions += ["negative observation: the gated reads/writes are held for a grace period (15 ms per release step) during which a faulty server would close the object",
                      "os-backed Server: verdict from the statuses of the pipelined reads/writes (a close that overtakes them makes them fail with a handle error)"]
    return c.finish()


def check_C18(c):
    _pktmgr_models(c, [("ReleaseAfterSend", "Inv_C18_Exclusive"), ("TagNextOrder", "Inv_C18_Exclusive")])
    scen = export_pipeline_scenarios(c, 40 if c.tier == "quick" else 1000)
    rc, out, path = c.run("TestVerif_AllocDiff", env={"VERIF_SCEN": scen}, timeout=3000)
    traces = _count_pipeline(c, path)
    c.cov["rule"] = ("a case is one (server kind, request program, completion order, end mode) run twice - allocator off and on - under the same forced "
                     "completion order; response byte streams compared; allocator page events validated; distinct = distinct tuples")
    found = c.validate("TraceServer", "TraceServer.C18.cfg", path)
    report_trace_violations(c, found, "TraceServer")
    rc, out, path2 = c.run("TestVerif_AllocStress", timeout=3000)
    _count_pipeline(c, path2)
    found = c.validate("TraceServer", "TraceServer.C18.cfg", path2)
    report_trace_violations(c, found, "TraceServer")
    c.assumptions += ["page identity = address of the page's first byte (hook alloc.get, under the allocator lock)",
                      "at quiescence the receiver already holds one page for the next packet (allowed)"]
    return c.finish()


def export_scen(c, module, cfg, n, conv, name, depth=200):
    r = vlib.tlc(module, cfg, c.wd, timeout=600, workers=1, simulate="num=%d" % n, depth=depth,
                 extra=["-seed", str(c.seed), "-deadlock"])
    if not r.ok:
        raise Machinery("scenario export %s failed: %s %s\n%s" % (module, r.violated, r.error, r.raw[-2000:]))
    scs = []
    for line in r.raw.splitlines():
        m = re.match(r'<<"SCEN", "(.*)">>$', line.strip())
        if m:
            scs.append(conv(json.loads(m.group(1).encode().decode("unicode_escape")), len(scs)))
    if not scs:
        raise Machinery("no scenarios exported from " + module)
    path = os.path.join(c.wd, name)
    json.dump(scs, open(path, "w"))
    c.cov["harness"]["tlc_scenarios"] = c.cov["harness"].get("tlc_scenarios", 0) + len(scs)
    c.cov["tlc_runs"].append({"module": module, "cfg": cfg, "mode": "simulate", "scenarios": len(scs), "generated": r.generated,
                              "wall_s": round(r.wall, 1)})
    c.cov["samples"].append({"kind": "scenario exported from " + module, "scenario": scs[c.seed % len(scs)]})
    return path


def count_traces(c, path, fields):
    ev = vlib.read_ndjson(path)
    traces = vlib.split_traces(ev)
    c.cov["evaluations"] += len(traces)
    c.cov["distinct_nontrivial"] += len({json.dumps([t[0].get(f) for f in fields], sort_keys=True) for t in traces if len(t) > 3})
    return traces


def check_C11(c):
    c.model("Session", "Session.quick.cfg", note="exhaustive: <=6 requests, <=3 open handles")
    for mech, inv in [("MonotonicHandles", "Inv_C11_Unique"), ("CloseDeletes", "Inv_C11_NeverTwice"), ("SweepOnExit", "Inv_C11_ClosedOnce"),
                      ("TErrOnlyOpen", "Inv_C11_TErrExactlyOpen"), ("DropFailedOpen", "Inv_C11_StaleNotValid")]:
        c.model("Session", "Session.abl_%s.cfg" % mech, must="fail", expect=inv, note="mechanism %s removed" % mech)
    if c.tier == "thorough":
        c.model("Session", "Session.thorough.cfg", note="exhaustive: <=9 requests, <=4 open handles")
    ends = ["eof", "mid", "err"]
    scen = export_scen(c, "SessionScen", "SessionScen.cfg", 80 if c.tier == "quick" else 2000,
                       lambda s, i: {"ops": s, "end": ends[i % 3], "src": "tlc"}, "scen_session.json")
    rc, out, path = c.run("TestVerif_Session", env={"VERIF_SCEN": scen}, timeout=3000)
    count_traces(c, path, ["server", "end", "ops"])
    c.cov["rule"] = ("a case is one (server configuration, operation sequence, way the connection ends) replayed sequentially on the real server; "
                     "non-trivial = at least one request; distinct = distinct tuples; sequences come from TLC simulation of Session.tla and a seeded generator")
    found = c.validate("TraceSession", "TraceSession.cfg", path)
    report_trace_violations(c, found, "TraceSession")
    c.assumptions += ["handle strings are mapped to small integers by first occurrence (the mapping preserves equality, so uniqueness is decided by TLC)",
                      "os-backed Server: 'touching a file' is observed as a change of the served tree digest; descriptor leaks via /proc/self/fd entries below the served root"]
    return c.finish()
