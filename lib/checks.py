"""Per-property checks. Each function: model runs (TLC) -> scenario export -> harness on the real
code -> trace validation (TLC) -> evidence + verdict."""
import json, os, re, sys
import vlib
from vlib import Machinery, log


def _key(prop, trace_head, inv, extra=""):
    """Signature of a violation for known-finding matching: property, server kind, end mode, invariant."""
    parts = [inv]
    for f in ("server", "end", "kind", "api", "op"):
        if f in trace_head and isinstance(trace_head[f], (str, int)):
            parts.append("%s=%s" % (f, trace_head[f]))
    if extra:
        parts.append(extra)
    return ",".join(parts)


def report_trace_violations(c, found, module):
    for f in found:
        head = f["trace"][0] if f["trace"] else {}
        key = _key(c.prop, head, f["invariant"])
        desc = "%s violated at event %s" % (f["invariant"], json.dumps(f["line"])[:300])
        c.violation(key, desc, {"module": module, "invariant": f["invariant"], "tlc_state": f["state"],
                                "scenario": head, "trace": f["trace"][:400]})


# ------------------------------------------------------------------ scenarios from the model

def export_pipeline_scenarios(c, n):
    """Behaviours of PktMgr.tla (simulation, seeded) -> (program, completion order, end) scenarios."""
    r = vlib.tlc("PktMgrScen", "PktMgrScen.cfg", c.wd, timeout=300, workers=1, simulate="num=%d" % n, depth=300,
                 extra=["-seed", str(c.seed), "-deadlock"])
    if not r.ok:
        raise Machinery("scenario export failed: %s %s\n%s" % (r.violated, r.error, r.raw[-2000:]))
    scs = []
    for line in r.raw.splitlines():
        m = re.match(r'<<"SCEN", "(.*)">>$', line.strip())
        if not m:
            continue
        sched = json.loads(m.group(1).encode().decode("unicode_escape"))
        prog, rel, eof_at, nrecv = [], [], None, 0
        for i, s in enumerate(sched):
            if s["a"] == "recv":
                nrecv += 1
                k = s["k"]
                if k == "R":
                    k = "R" if nrecv % 2 else "W"
                prog.append({"k": k, "h": int(s["h"][1:])})
            elif s["a"] == "end":
                o = s["o"]
                if prog[o - 1]["k"] in ("R", "W"):
                    rel.append(o)
            elif s["a"] == "eof":
                eof_at = i
        scs.append({"prog": prog, "rel": rel, "end": "eof" if len(scs) % 3 == 0 else "open", "src": "tlc"})
    if not scs:
        raise Machinery("no scenarios exported")
    path = os.path.join(c.wd, "scen_pipeline.json")
    json.dump(scs, open(path, "w"))
    c.cov["harness"]["tlc_scenarios"] = len(scs)
    c.cov["tlc_runs"].append({"module": "PktMgrScen", "cfg": "PktMgrScen.cfg", "mode": "simulate", "scenarios": len(scs),
                              "generated": r.generated, "wall_s": round(r.wall, 1)})
    c.cov["samples"].append({"kind": "scenario exported from PktMgr.tla", "scenario": scs[c.seed % len(scs)]})
    return path


def _pktmgr_models(c, invs_abl):
    c.model("PktMgr", "PktMgr.quick.cfg", note="exhaustive: NW=2, caps=1, <=4 requests, 1 handle, kinds R/C/M/X, allocator on")
    c.model("PktMgr", "PktMgr.live.cfg", note="liveness eof ~> Terminated under WF, <=3 requests")
    for mech, inv in invs_abl:
        c.model("PktMgr", "PktMgr.abl_%s.cfg" % mech, must="fail", expect=inv, note="mechanism %s removed" % mech)
    if c.tier == "thorough":
        c.model("PktMgr", "PktMgr.thorough.cfg", timeout=3000, note="exhaustive: <=5 requests, 1 handle, kinds R/C/M (27.5 M states)")
        c.model("PktMgr", "PktMgr.thorough2.cfg", timeout=3000, note="exhaustive: NW=3, channel capacities 2, <=4 requests (6.8 M states)")
        c.model("PktMgr", "PktMgr.thorough3.cfg", timeout=3000, note="exhaustive: <=4 requests, 2 handles (29 M states)")


def _count_pipeline(c, path):
    ev = vlib.read_ndjson(path)
    traces = vlib.split_traces(ev)
    c.cov["evaluations"] += len(traces)
    distinct = set()
    for t in traces:
        h = t[0]
        distinct.add(json.dumps([h.get("server"), h.get("end"), h.get("prog"), h.get("rel")], sort_keys=True))
    c.cov["distinct_nontrivial"] += len(distinct)
    return traces


def check_C02(c):
    _pktmgr_models(c, [("DrainOnFini", "Inv_C02_AllAnswered")])
    scen = export_pipeline_scenarios(c, 60 if c.tier == "quick" else 1500)
    rc, out, path = c.run("TestVerif_Pipeline", env={"VERIF_SCEN": scen}, timeout=3000)
    _count_pipeline(c, path)
    c.cov["rule"] = ("a case is one (server configuration, request program, completion order, end mode) replayed on the real server; "
                     "distinct = distinct such tuples; programs come from TLC simulation of PktMgr.tla, the seeded generator and fixed attack shapes")
    found = c.validate("TraceServer", "TraceServer.C02.cfg", path)
    report_trace_violations(c, found, "TraceServer")
    c.assumptions += ["in-memory transport (unbounded pipes); Go scheduler not controlled, completion order forced through handler/worker gates",
                      "response legality table = SFTP v3 draft-02 section 7 + OpenSSH PROTOCOL"]
    return c.finish()


def check_C14(c):
    _pktmgr_models(c, [("Barrier", "Inv_C14_NoRWAfterClose")])
    scen = export_pipeline_scenarios(c, 60 if c.tier == "quick" else 1500)
    rc, out, path = c.run("TestVerif_Pipeline", env={"VERIF_SCEN": scen}, timeout=3000)
    _count_pipeline(c, path)
    c.cov["rule"] = ("a case is one (server configuration, request program, completion order, end mode); reads/writes are held at a gate "
                     "and the close is pipelined behind them; distinct = distinct tuples")
    found = c.validate("TraceServer", "TraceServer.C14.cfg", path)
    report_trace_violations(c, found, "TraceServer")
    c.assumptions += ["negative observation: the gated reads/writes are held for a grace period (15 ms per release step) during which a faulty server would close the object",
                      "os-backed Server: verdict from the statuses of the pipelined reads/writes (a close that overtakes them makes them fail with a handle error)"]
    return c.finish()


def check_C18(c):
    _pktmgr_models(c, [("ReleaseAfterSend", "Inv_C18_Exclusive"), ("TagNextOrder", "Inv_C18_Exclusive")])
    scen = export_pipeline_scenarios(c, 40 if c.tier == "quick" else 1000)
    rc, out, path = c.run("TestVerif_AllocDiff", env={"VERIF_SCEN": scen}, timeout=3000)
    traces = _count_pipeline(c, path)
    c.cov["rule"] = ("a case is one (server kind, request program, completion order, end mode) run twice - allocator off and on - under the same forced "
                     "completion order; response byte streams compared; allocator page events validated; distinct = distinct tuples")
    found = c.validate("TraceServer", "TraceServer.C18.cfg", path)
    report_trace_violations(c, found, "TraceServer")
    rc, out, path2 = c.run("TestVerif_AllocStress", timeout=3000)
    _count_pipeline(c, path2)
    found = c.validate("TraceServer", "TraceServer.C18.cfg", path2)
    report_trace_violations(c, found, "TraceServer")
    c.assumptions += ["page identity = address of the page's first byte (hook alloc.get, under the allocator lock)",
                      "at quiescence the receiver already holds one page for the next packet (allowed)"]
    return c.finish()


def export_scen(c, module, cfg, n, conv, name, depth=200):
    r = vlib.tlc(module, cfg, c.wd, timeout=600, workers=1, simulate="num=%d" % n, depth=depth,
                 extra=["-seed", str(c.seed), "-deadlock"])
    if not r.ok:
        raise Machinery("scenario export %s failed: %s %s\n%s" % (module, r.violated, r.error, r.raw[-2000:]))
    scs = []
    for line in r.raw.splitlines():
        m = re.match(r'<<"SCEN", "(.*)">>$', line.strip())
        if m:
            scs.append(conv(json.loads(m.group(1).encode().decode("unicode_escape")), len(scs)))
    if not scs:
        raise Machinery("no scenarios exported from " + module)
    path = os.path.join(c.wd, name)
    json.dump(scs, open(path, "w"))
    c.cov["harness"]["tlc_scenarios"] = c.cov["harness"].get("tlc_scenarios", 0) + len(scs)
    c.cov["tlc_runs"].append({"module": module, "cfg": cfg, "mode": "simulate", "scenarios": len(scs), "generated": r.generated,
                              "wall_s": round(r.wall, 1)})
    c.cov["samples"].append({"kind": "scenario exported from " + module, "scenario": scs[c.seed % len(scs)]})
    return path


def count_traces(c, path, fields):
    ev = vlib.read_ndjson(path)
    traces = vlib.split_traces(ev)
    c.cov["evaluations"] += len(traces)
    c.cov["distinct_nontrivial"] += len({json.dumps([t[0].get(f) for f in fields], sort_keys=True) for t in traces if len(t) > 3})
    return traces


def check_C11(c):
    c.proof("SessionProof", note="Spec => []Inv_C11_Unique for ANY MaxOps / MaxOpen (inductive invariant, TLAPS), given MonotonicHandles")
    c.model("Session", "Session.quick.cfg", note="exhaustive: <=6 requests, <=3 open handles")
    for mech, inv in [("MonotonicHandles", "Inv_C11_Unique"), ("CloseDeletes", "Inv_C11_NeverTwice"), ("SweepOnExit", "Inv_C11_ClosedOnce"),
                      ("TErrOnlyOpen", "Inv_C11_TErrExactlyOpen"), ("DropFailedOpen", "Inv_C11_StaleNotValid")]:
        c.model("Session", "Session.abl_%s.cfg" % mech, must="fail", expect=inv, note="mechanism %s removed" % mech)
    if c.tier == "thorough":
        c.model("Session", "Session.thorough.cfg", note="exhaustive: <=9 requests, <=4 open handles")
    ends = ["eof", "mid", "err"]
    scen = export_scen(c, "SessionScen", "SessionScen.cfg", 80 if c.tier == "quick" else 2000,
                       lambda s, i: {"ops": s, "end": ends[i % 3], "src": "tlc"}, "scen_session.json")
    rc, out, path = c.run("TestVerif_Session", env={"VERIF_SCEN": scen}, timeout=3000)
    count_traces(c, path, ["server", "end", "ops"])
    c.cov["rule"] = ("a case is one (server configuration, operation sequence, way the connection ends) replayed sequentially on the real server; "
                     "non-trivial = at least one request; distinct = distinct tuples; sequences come from TLC simulation of Session.tla and a seeded generator")
    found = c.validate("TraceSession", "TraceSession.cfg", path)
    report_trace_violations(c, found, "TraceSession")
    c.assumptions += ["handle strings are mapped to small integers by first occurrence (the mapping preserves equality, so uniqueness is decided by TLC)",
                      "os-backed Server: 'touching a file' is observed as a change of the served tree digest; descriptor leaks via /proc/self/fd entries below the served root"]
    return c.finish()


def run_crashy(c, test, env=None, timeout=3000, max_restarts=40, max_crashes=6):
    """Run a harness test whose cases may kill the process (panic in a package goroutine, runaway allocation).
    The test flushes a Reset event with its case number before each case; after a crash the driver records the
    case as crashed and restarts the test behind it.  Returns (path of the merged trace, list of crashed heads)."""
    merged = os.path.join(c.wd, "rec_%s_merged.ndjson" % test)
    crashed = []
    skip = 0
    with open(merged, "w") as out:
        for attempt in range(max_restarts):
            e = dict(env or {})
            e["VERIF_SKIP"] = skip
            rc, output, path = c.run(test, env=e, timeout=timeout, out="rec_%s_%d.ndjson" % (test, attempt), allow_fail=True)
            evs = vlib.read_ndjson(path) if os.path.exists(path) else []
            if rc == 0:
                for ev in evs:
                    ev["t"] = ev.get("t", 0) + attempt * 1000000
                    out.write(json.dumps(ev) + "\n")
                break
            # crashed (or failed): find the last case
            heads = [ev for ev in evs if ev.get("ev") == "Reset" and "case" in ev]
            killed = rc is not None and rc < 0
            if not heads or not (killed or "panic" in output or "fatal error" in output or "signal" in output):
                raise Machinery("harness %s failed without a panic (rc=%s):\n%s" % (test, rc, output[-4000:]))
            last = heads[-1]
            m = re.search(r"(panic: .*|fatal error: .*)", output)
            stack = output[output.find(m.group(1)):][:3000] if m else output[-3000:]
            what = (m.group(1) if m else ("killed by signal %d (the kernel's out-of-memory killer sends 9)" % -rc if killed else "?"))[:300]
            crashed.append({"head": last, "panic": what, "stack": stack})
            if len(crashed) >= max_crashes:
                # the rest of the sweep would only repeat the finding slowly (an out-of-memory death takes a minute each)
                c.cov["harness"]["sweep_aborted_after_crashes"] = len(crashed)
                for ev in evs:
                    if ev.get("t") == last.get("t"):
                        break
                    ev["t"] = ev.get("t", 0) + attempt * 1000000
                    out.write(json.dumps(ev) + "\n")
                break
            # keep the complete traces before the crashed case
            for ev in evs:
                if ev.get("t") == last.get("t"):
                    break
                ev["t"] = ev.get("t", 0) + attempt * 1000000
                out.write(json.dumps(ev) + "\n")
            skip = last["case"]
        else:
            raise Machinery("too many crashes (%d) in %s" % (len(crashed), test))
    return merged, crashed


def check_C07(c):
    c.model("PktMgr", "PktMgr.quick.cfg", note="exhaustive incl. malformed packets (kind X): a malformed packet is never dispatched, pipeline terminates")
    c.model("PktMgr", "PktMgr.abl_StopOnMalformed.cfg", must="fail", expect="Inv_C07_NoActOnMalformed", note="Serve loop dispatches a malformed packet")
    c.model("PktMgr", "PktMgr.live.cfg", note="liveness eof ~> Terminated")
    path, crashed = run_crashy(c, "TestVerif_Streams", timeout=3000)
    traces = count_traces(c, path, ["server", "soft", "base", "mut"])
    c.cov["rule"] = ("a case is one mutated byte stream (cut offset / length field value / type byte / garbage) of a recorded valid session, on one server "
                     "configuration, run twice (mutated stream; its well-formed prefix alone); distinct = distinct (server, base session, mutation)")
    for cr in crashed:
        h = cr["head"]
        site = re.findall(r"github.com/pkg/sftp\.(\S+?)\(", cr["stack"])
        key = "panic,server=%s,site=%s" % (h.get("server"), site[0] if site else "?")
        c.violation(key, "process crashed on stream case %s (%s %s): %s" % (h.get("case"), h.get("base"), h.get("mut"), cr["panic"]),
                    {"case": h, "panic": cr["panic"], "stack": cr["stack"]})
    c.cov["harness"]["crashed_cases"] = len(crashed)
    found = c.validate("TraceStream", "TraceStream.cfg", path)
    for f in found:
        head = f["trace"][0] if f["trace"] else {}
        st = f["state"]
        which = {"Inv_C07_ServeReturns": "ret", "Inv_C07_Released": "leak", "Inv_C07_NoActOnMalformed": "acted", "Inv_C07_PrefixResponses": "extra"}.get(f["invariant"])
        key = "%s,server=%s" % (f["invariant"], head.get("server"))
        c.violation(key, "%s: %s on stream case %s %s" % (f["invariant"], st.get(which, ""), head.get("base"), head.get("mut")),
                    {"module": "TraceStream", "invariant": f["invariant"], "tlc_state": st, "case": head, "trace": f["trace"][:300]})
    c.assumptions += ["well-formedness of a frame is decided by the harness's independent codec (unknown packet types and short bodies are malformed; trailing bytes are tolerated)",
                      "a packet whose attribute block is shorter than its flags announce is only subject to the crash/leak/return clauses (the package decodes attributes lazily and answers with an error status)",
                      "state comparison excludes time stamps; statvfs numbers are masked"]
    return c.finish()


def check_C03(c):
    c.proof("ClientConnProof", note="Spec => []Inv_C03_DistinctIds for ANY set of callers (inductive invariant, TLAPS), given AtomicNextId")
    if c.tier == "thorough":
        c.model("ClientConn", "ClientConn.thorough.cfg", note="4 callers, reader failure + cancellation at every step (writer failure off); safety + deadlock", timeout=1800, workers=12)
    c.model("ClientConn", "ClientConn.cancel.cfg", note="exhaustive: 3 callers (2 with header+payload writes), peer answers in any order, reader/writer may fail at any step, "
            "any caller may cancel its context while waiting; safety + no spurious teardown + <>AllDone")
    for mech, inv in [("AtomicNextId", "Inv_C03_DistinctIds"), ("SendLock", "Inv_C03_Framing"), ("DeleteOnGet", "Inv_C04_NotifiedOnce"),
                      ("KeepSlotOnCancel", "Inv_C03_NoSpuriousTeardown"), ("ChanCap1", "Deadlock")]:
        c.model("ClientConn", "ClientConn.abl_%s.cfg" % mech, must="fail", expect=inv, note="mechanism %s removed" % mech)
    rc, out, path = c.run("TestVerif_OwnReply", timeout=3000)
    count_traces(c, path, ["G", "R", "batch", "maxpacket", "conc", "t"])
    c.cov["rule"] = ("a case is one concurrent history: G goroutines x R operations on one Client/File against the scripted peer, which answers each batch of outstanding "
                     "requests in a prescribed permutation (all permutations for batches <= 4); distinct = histories (seeded, all different)")
    found = c.validate("TraceClient", "TraceClient.cfg", path)
    report_trace_violations(c, found, "TraceClient")
    c.assumptions += ["every reply of the scripted peer is a function of the request it answers; the expected value is computed by the harness from the call's argument",
                      "channel identity = address of the result channel (hook cc.put / cc.deliver.*)"]
    return c.finish()


def check_C04(c):
    if c.tier == "thorough":
        c.model("ClientConn", "ClientConn.thorough2.cfg", note="4 callers, reader failure + writer failure at every step; safety + deadlock", timeout=1800, workers=12)
    c.model("ClientConn", "ClientConn.quick.cfg", note="exhaustive: 3 callers, reader failure / writer failure at every step of every interleaving; NotifiedOnce, no blocked state (deadlock check), <>AllDone")
    c.model("ClientConn", "ClientConn.abl_HijackOnBroadcast.cfg", must="fail", expect="Deadlock", note="broadcastErr does not hijack the channel: a later send error blocks on the full channel")
    c.model("ClientConn", "ClientConn.abl_SendErrDelivered.cfg", must="fail", expect="Deadlock", note="send error not delivered: the caller waits forever")
    c.model("ClientConn", "ClientConn.abl_DeleteOnGet.cfg", must="fail", expect="Inv_C04_NotifiedOnce", note="getChannel does not delete: notified twice")
    c.model("ClientConn", "ClientConn.halfopen.cfg", note="the same on a transport whose Close does not stop writes (half-open link): a caller arriving during / after the broadcast is still refused")
    c.model("ClientConn", "ClientConn.abl_AtomicPutCheck.cfg", must="fail", expect="Deadlock", note="putChannel looks at `closed` outside the mutex: on a half-open link a caller registers after the broadcast and waits forever")
    c.model("ClientConn", "ClientConn.abl_SendErrToRegistered.cfg", must="fail", note="a failed write reported on the caller's own channel: it may already hold the broadcast result (blocked sender or second notification)")
    path, crashed = run_crashy(c, "TestVerif_ConnLoss", timeout=3000)
    for cr in crashed:
        h = cr["head"]
        site = re.findall(r"github.com/pkg/sftp\.(\S+?)\(", cr["stack"])
        c.violation("panic,site=%s" % (site[0] if site else "?"),
                    "the process crashed (panic in a goroutine of the package) in connection-loss case %s: fault=%s at=%s err=%s: %s" % (h.get("case"), h.get("fault"), h.get("at"), h.get("err"), cr["panic"]),
                    {"case": h, "panic": cr["panic"], "stack": cr["stack"]})
    c.cov["harness"]["crashed_cases"] = len(crashed)
    count_traces(c, path, ["fault", "at", "err", "variant", "mini"])
    c.cov["rule"] = ("a case is one (client option variant, fault) where the fault is a cut of the server->client stream at a byte offset (EOF or error) or the failure of the "
                     "j-th client->server write; 5 goroutines run single calls and multi-chunk transfers, two of them start calls around/after the failure; "
                     "'mini' cases: one goroutine with a fixed sequence of single-packet operations, cut at EVERY byte of its (deterministic) reply stream, with EOF and with an error")
    found = c.validate("TraceClient", "TraceClient.C04.cfg", path)
    report_trace_violations(c, found, "TraceClient")
    c.assumptions += ["bounded waiting (20 s per session) stands for 'hangs'; the parked-goroutine stack is stored in the replay file",
                      "the peer behaves like a server process: when its input ends it closes its output"]
    return c.finish()


def _file_violations(c, found):
    for f in found:
        head = f["trace"][0] if f["trace"] else {}
        st = f["state"]
        msg = (st.get("c01", '""') + st.get("c12", '""') + st.get("c13", '""')).replace('""', "").strip('"')
        api = msg.rsplit(": ", 1)[-1] if ": " in msg else "?"
        key = "%s,api=%s,backend=%s" % (f["invariant"], api, head.get("backend"))
        c.violation(key, "%s: %s (options %s)" % (f["invariant"], msg, {k: head.get(k) for k in ("p", "conc", "creads", "cwrites", "fstat", "size")}),
                    {"module": "TraceFile", "invariant": f["invariant"], "tlc_state": st, "scenario": head, "trace": f["trace"][:200]})


def _file_models(c, which):
    c.model("FileXfer", "FileXfer.quick.cfg", note="exhaustive: slicer/map workers/reducer and WriteTo chain, size<=4, len<=5, P=2, conc<=2, <=2 bad bytes, every reply order")
    if "C13" in which:
        c.model("FileXfer", "FileXfer.abl_ReduceLowest.cfg", must="fail", expect="Inv_C13_Result", note="reducer keeps the first error to arrive instead of the lowest offset")
    if "C12" in which:
        c.model("FileXfer", "FileXfer.abl_OffsetOnData.cfg", must="fail", expect="Inv_C12_WriteToOffset", note="WriteTo moves the offset for data-less packets (behaviour before fix c52b73a)")
        c.model("FileSeq", "FileSeq.quick.cfg", note="offset/closed state machine over boundary arguments, <=4 calls")
    if c.tier == "thorough":
        c.model("FileXfer", "FileXfer.live.cfg", timeout=3000, note="liveness <>returns")
        c.model("FileXfer", "FileXfer.thorough.cfg", timeout=6000, note="size<=7, len<=8, P in {2,3}, conc<=3")


def _fileseq_scen(c, n):
    def conv(s, i):
        size = s[0]["off"]
        calls = []
        for x in s[1:]:
            src = ["len", "size", "stat", "limited", "opaque", "conc"][i % 6]
            calls.append({"api": x["api"], "off": x["off"], "len": x["len"], "whence": x["whence"] if x["api"] == "Seek" else (i % 4), "src": src})
        return {"size": size, "calls": calls, "src": "tlc"}
    return export_scen(c, "FileSeq", "FileSeqScen.cfg", n, conv, "scen_fileseq.json", depth=12)


def check_C01(c):
    _file_models(c, ["C01"])
    scen = _fileseq_scen(c, 60 if c.tier == "quick" else 2000)
    rc, out, path = c.run("TestVerif_FileExact", env={"VERIF_SCEN": scen}, timeout=6000)
    count_traces(c, path, ["backend", "p", "conc", "creads", "cwrites", "fstat", "size", "calls"])
    c.cov["rule"] = ("a case is one (backend, client options, file size, call sequence) on the real File: backends = os Server / RequestServer, each with and without allocator, "
                     "and the scripted peer answering in permuted batches; sizes/lengths/offsets are boundary values around multiples of the packet size; every payload is logged "
                     "and compared byte for byte by TLC")
    found = c.validate("TraceFile", "TraceFile.C01.cfg", path)
    _file_violations(c, found)
    rc, out, path3 = c.run("TestVerif_FileBig", timeout=6000)
    count_traces(c, path3, ["backend", "opts", "size"])
    found = c.validate("TraceFile", "TraceFile.C01.cfg", path3)
    _file_violations(c, found)
    c.assumptions += ["packet sizes 1..64 so that whole payloads are logged verbatim; transfers with the default packet size (32768) and up to 64 requests in flight, sizes around multiples of the packet size up to 2-3 MB, are compared by content equality only",
                      "client packet size never exceeds the server's maximum payload (as the property requires)"]
    return c.finish()


def check_C12(c):
    _file_models(c, ["C12"])
    scen = _fileseq_scen(c, 80 if c.tier == "quick" else 3000)
    rc, out, path = c.run("TestVerif_FileExact", env={"VERIF_SCEN": scen}, timeout=6000)
    count_traces(c, path, ["backend", "p", "conc", "creads", "cwrites", "fstat", "size", "calls"])
    found = c.validate("TraceFile", "TraceFile.C12.cfg", path)
    _file_violations(c, found)
    rc, out, path3 = c.run("TestVerif_FileBig", timeout=6000)
    count_traces(c, path3, ["backend", "opts", "size"])
    found = c.validate("TraceFile", "TraceFile.C12.cfg", path3)
    _file_violations(c, found)
    rc, out, path2 = c.run("TestVerif_CloseRace", timeout=3000)
    count_traces(c, path2, ["G", "round"])
    found = c.validate("TraceFile", "TraceFile.C12.cfg", path2)
    _file_violations(c, found)
    c.cov["rule"] = ("(a) sequences of File method calls (TLC-exported from FileSeq.tla and seeded) with the offset read back after every call; "
                     "(b) rounds of Close racing 2-5 goroutines that call ReadAt/WriteAt/Stat/Truncate/Chmod, with the peer's request log checked for one CLOSE and nothing after it")
    c.assumptions += ["the close race is sampled (Go scheduler); the wire log is taken by the peer's single reader goroutine"]
    return c.finish()


def check_C13(c):
    _file_models(c, ["C13"])
    rc, out, path = c.run("TestVerif_FilePartial", timeout=6000)
    count_traces(c, path, ["backend", "p", "conc", "creads", "cwrites", "fstat", "size", "calls", "t"])
    c.cov["rule"] = ("a case is one (client options, file size, set of <=3 bad bytes, call sequence) against the scripted peer, which fails every request covering a bad byte "
                     "and answers each batch of outstanding requests in a seeded permutation; map workers are additionally delayed at the cl.map hook")
    found = c.validate("TraceFile", "TraceFile.C13.cfg", path)
    _file_violations(c, found)
    c.assumptions += ["the failing status carries the lowest bad byte of the failing request's range ('E@p'), code SSH_FX_FAILURE",
                      "after a cancelled transfer the harness lets the peer answer abandoned requests before it snapshots the served file"]
    return c.finish()


def validate_lin(c, path, timeout=1800):
    """Linearizability search by TLC (LinFile.tla). On a history that cannot be explained the search stops at it:
    it is reported, cut out, and the search continues with the histories behind it."""
    events = vlib.read_ndjson(path)
    if not events:
        raise Machinery("no events recorded in %s" % path)
    found, accepted = [], 0
    cur = events
    states = 0
    for rounds in range(300):
        if not cur:
            break
        p = os.path.join(c.wd, "trace.ndjson")
        with open(p, "w") as fh:
            for e in cur:
                fh.write(json.dumps(e) + "\n")
        r = vlib.tlc("LinFile", "LinFile.cfg", c.wd, workers=1, timeout=timeout, files=[p], jvm="-Dtlc2.tool.queue.IStateQueue=StateDeque")
        m = re.search(r'<<"HW", (\d+), (\d+)>>', r.raw)
        if not m:
            raise Machinery("linearizability search produced no verdict: %s\n%s" % (r.error, r.raw[-2000:]))
        hw, need = int(m.group(1)), int(m.group(2))
        states += r.distinct
        if hw == need:
            accepted += len(vlib.split_traces(cur))
            break
        tid = cur[hw - 1].get("t")
        first = next(i for i, e in enumerate(cur) if e.get("t") == tid)
        last = max(i for i, e in enumerate(cur) if e.get("t") == tid)
        accepted += len(vlib.split_traces(cur[:first])) if first > 0 else 0
        found.append({"trace": cur[first:last + 1], "stuck_at": cur[hw - 1]})
        cur = cur[last + 1:]
    c.cov["traces_validated_against_impl"] += accepted
    c.cov["states"] += states
    c.cov["transitions"] += states
    c.cov["tlc_runs"].append({"module": "LinFile", "cfg": "LinFile.cfg", "mode": "linearizability search over recorded histories", "distinct": states})
    log("[%s] linearizability search: %d events, %d histories accepted, %d rejected" % (c.prop, len(events), accepted, len(found)))
    return found


def check_C15(c):
    # design level: the composition client conn | wire | worker pool + ordered responses | one block, with the
    # three mechanisms of the anchors as constants (each ablation must break the witness invariant)
    if c.tier == "thorough":
        c.model("EndToEnd", "EndToEnd.thorough.cfg", note="5 callers (2 writers), 3 workers", timeout=2400, workers=16)
    c.model("EndToEnd", "EndToEnd.cfg", note="4 callers (2 writers), 2 workers; with liveness (every call returns)", timeout=900)
    for a in ("ReplyAfterHandler", "OwnBuffer", "RouteById"):
        c.model("EndToEnd", "EndToEnd.abl_%s.cfg" % a, must="fail", expect="Inv_C15_Linearizable", note="mechanism %s removed" % a)
    rc, out, path = c.run("TestVerif_Lin", timeout=6000)
    traces = count_traces(c, path, ["backend", "bs", "G", "R", "t"])
    c.cov["rule"] = ("a case is one concurrent history: 2-4 goroutines x 3-5 single-packet operations (ReadAt / WriteAt of whole blocks, Stat) over one Client on one or two "
                     "handles of the same file, against both servers with and without allocator; handler calls are randomly delayed; distinct = histories")
    found = validate_lin(c, path)
    for f in found:
        head = f["trace"][0]
        c.violation("NotLinearizable,backend=%s,bs=%s" % (head.get("backend"), head.get("bs")),
                    "history cannot be explained by any sequential order respecting real time; the search is stuck at %s" % json.dumps(f["stuck_at"])[:300],
                    {"module": "LinFile", "history": f["trace"][:300], "stuck_at": f["stuck_at"]})
    if traces and len(c.cov["samples"]) < 3:
        c.cov["samples"].append({"kind": "recorded history accepted by LinFile.tla", "events": traces[c.seed % len(traces)][:40]})
    c.assumptions += ["os-backed server: only aligned single 8-byte blocks (the kernel copies those atomically); RequestServer: ranges on a mutex-protected in-memory file",
                      "real-time order = order of Call/Ret events under the tracer mutex (an event order is only ever a sound under-approximation of precedence)"]
    return c.finish()


def export_table(c, module, cfg, name):
    """Exhaustive enumeration specs print one SCEN line per case."""
    r = vlib.tlc(module, cfg, c.wd, timeout=900, workers=1)
    if not r.ok:
        raise Machinery("table export %s failed: %s %s\n%s" % (module, r.violated, r.error, r.raw[-2000:]))
    cases = []
    for line in r.raw.splitlines():
        m = re.match(r'<<"SCEN", "(.*)">>$', line.strip())
        if m:
            cases.append(json.loads(m.group(1).encode().decode("unicode_escape")))
    if not cases:
        raise Machinery("no cases exported from " + module)
    path = os.path.join(c.wd, name)
    json.dump(cases, open(path, "w"))
    c.cov["states"] += r.distinct
    c.cov["transitions"] += r.generated
    c.cov["tlc_runs"].append({"module": module, "cfg": cfg, "mode": "exhaustive enumeration of the table", "cases": len(cases), "distinct": r.distinct})
    c.cov["exhaustive"] = True
    c.cov["samples"].append({"kind": "case exported from " + module, "case": cases[c.seed % len(cases)]})
    return path, cases


def check_C09(c):
    scen, cases = export_table(c, "ReadOnlyEnum", "ReadOnlyEnum.cfg", "scen_ro.json")
    rc, out, path = c.run("TestVerif_ReadOnly", env={"VERIF_SCEN": scen}, timeout=3000)
    c.cov["evaluations"] += len(cases)
    c.cov["distinct_nontrivial"] += len(cases)
    c.cov["rule"] = ("the complete decision table of ReadOnly.tla: OPEN x 64 pflag combinations x 5 target kinds, SETSTAT/FSETSTAT x 32 attribute-flag subsets, every path request and "
                     "extended-request name x 5 target kinds, and two-step sequences (permitted OPEN/OPENDIR, then WRITE/FSETSTAT/READ/... through the handle); every case is distinct")
    ev = vlib.read_ndjson(path)
    found = c.validate("TraceRO", "TraceRO.cfg", path)
    for f in found:
        e = f["line"]
        msg = f["state"].get("c09", "")
        what = "tree-changed" if not e.get("same", True) else ("not-denied" if "permission" in msg else "reading-broken")
        key = "Inv_C09,typ=%s,%s" % (e.get("typ"), what)
        if e.get("typ") == "OPEN":
            key += ",pflags=%d" % e["pflags"]
        c.violation(key, "%s: case %s" % (msg, {k: e.get(k) for k in ("typ", "pflags", "target", "aflags", "via", "rtyp", "code", "wtyp", "wcode", "same")}),
                    {"module": "TraceRO", "case": e, "tlc": msg})
    c.cov["samples"].append({"kind": "replayed case", "event": [e for e in ev if e["ev"] == "ROCase"][c.seed % max(1, len(cases))]})
    c.assumptions += ["snapshot = names, types, modes, sizes, contents, link targets, mtimes of the whole served tree (atime excluded)",
                      "runs as root: permission bits do not protect the tree, so any leak through the gate is visible as a change"]
    return c.finish()


def check_C19(c):
    scen, cases = export_table(c, "HandshakeEnum", "HandshakeEnum.cfg", "scen_hs.json")
    rc, out, path = c.run("TestVerif_Handshake", env={"VERIF_SCEN": scen}, timeout=3000)
    traces = count_traces(c, path, ["case", "i"])
    c.cov["exhaustive"] = c.tier == "thorough"
    c.cov["rule"] = ("cases of the Handshake.tla tables: 800 configuration attempts (request lists of <=3 names over 3 supported + 4 invalid names, from two base configurations), "
                     "2520 handshake replies (8 versions x 9 packet types x 5 extension lists x 7 framings), 64 (advertised set, extended-request name) pairs; "
                     "quick replays all configuration/extension cases and a seeded third of the rejecting replies")
    found = c.validate("TraceHS", "TraceHS.cfg", path)
    for f in found:
        e = f["line"]
        msg = f["state"].get("c19", "").strip('"')
        key = "Inv_C19,%s" % e.get("ev")
        if e.get("ev") == "HSReply":
            key += ",typ=%s,ver=%s,exts=%s,frame=%s" % (e.get("typ"), e.get("ver"), e.get("exts"), e.get("frame"))
        elif e.get("ev") == "HSExt":
            key += ",name=%s" % e.get("name")
        c.violation(key, "%s: %s" % (msg, json.dumps(e)[:400]), {"module": "TraceHS", "case": e, "tlc": msg})
    c.assumptions += ["SetSFTPExtensions is process-global: this driver runs alone in its process and restores the default list",
                      "'any other name' is read as: any name outside the supported set (a supported extension that is not advertised is not constrained)"]
    return c.finish()


def check_C16(c):
    c.model("Listing", "Listing.quick.cfg", note="exhaustive: directory size <= 8, batch size in {1,2,3}, EVERY legal lister behaviour; exactness, no duplicate, termination (liveness)")
    c.model("Listing", "Listing.abl_IncByReturned.cfg", must="fail", expect="Inv_C16_Exact", note="offset advanced by the buffer size instead of the entries returned")
    c.model("Listing", "Listing.abl_StatusOnlyWhenEmpty.cfg", must="fail", expect="Inv_C16_Exact", note="EOF returned together with entries drops them")
    scen, cases = export_table(c, "ListingScen", "ListingScen.cfg", "scen_ls.json")
    rc, out, path = c.run("TestVerif_Listing", env={"VERIF_SCEN": scen}, timeout=3000)
    count_traces(c, path, ["backend", "n", "b", "variant", "script"])
    c.cov["exhaustive"] = False
    c.cov["rule"] = ("a case is one (directory content, batch size, lister behaviour): all 313 terminated behaviours of Listing.tla (n<=7, B<=3) replayed through a scripted ListerAt on the real "
                     "RequestServer, plus sizes 0..2B+2 for B in {22,100} in four lister shapes, plus real directories on the os-backed Server around the 128-entry batch; names include long and "
                     "non-UTF-8 ones, '.' and '..' are injected in a third of the cases")
    found = c.validate("TraceLs", "TraceLs.cfg", path)
    for f in found:
        head = f["trace"][0]
        msg = f["state"].get("c16", "").strip('"')
        kind = "lost" if "lost" in msg else ("dup" if "dupl" in msg else ("hang" if "terminate" in msg else "other"))
        c.violation("Inv_C16,backend=%s,%s" % (head.get("backend"), kind), "%s (n=%s b=%s script=%s)" % (msg, head.get("n"), head.get("b"), json.dumps(head.get("script"))[:200]),
                    {"module": "TraceLs", "scenario": head, "result": {k: v for k, v in f["line"].items() if k not in ("got", "want")},
                     "got": f["line"].get("got", [])[:50], "want": f["line"].get("want", [])[:50]})
    c.assumptions += ["MaxFilelist is a package variable: the driver sets it per case and runs serialized", "entry names are compared as hex strings (non-UTF-8 names survive JSON)"]
    return c.finish()


def check_C10(c):
    scen, cases = export_table(c, "AdapterEnum", "AdapterEnum.cfg", "scen_adapter.json")
    rc, out, path = c.run("TestVerif_Adapter", env={"VERIF_SCEN": scen}, timeout=3000)
    ev = vlib.read_ndjson(path)
    ncases = sum(1 for e in ev if e.get("ev") in ("AdPath", "AdDispatch", "AdError"))
    c.cov["evaluations"] += ncases
    c.cov["distinct_nontrivial"] += ncases
    c.cov["exhaustive"] = c.tier == "thorough"
    c.cov["rule"] = ("cases of the Adapter.tla tables: 18660 paths (<=4 segments over {'', '.', '..', 'a', 'b.', non-UTF-8} x leading slash x trailing slash x 3 start directories, "
                     "sent through 13 request types), 1600 (request type, optional handler interfaces) pairs, 45 (error value, os wrapper) pairs through three handler entry points; "
                     "quick replays all paths of <=3 segments and a seeded quarter of the 4-segment ones; every replayed case is distinct")
    found = c.validate("TraceAdapter", "TraceAdapter.cfg", path)
    for f in found:
        e = f["line"]
        msg = f["state"].get("c10", "").strip('"')
        key = "Inv_C10,%s" % e.get("ev")
        if e.get("ev") == "AdError":
            key += ",err=%s,wrap=%s" % (e.get("err"), e.get("wrap"))
        elif e.get("ev") == "AdDispatch":
            key += ",req=%s" % e.get("req")
        elif e.get("ev") == "AdPath":
            key += ",req=%s" % e.get("req")
        c.violation(key, "%s: %s" % (msg, json.dumps(e)[:400]), {"module": "TraceAdapter", "case": e, "tlc": msg})
    c.assumptions += ["the argument of a custom RealPath resolver and a symlink's target text are passed verbatim by design (checked as such)",
                      "SFTP codes wrapped in os error types, and EOF inside os wrappers, are outside the property's wording and not enumerated"]
    return c.finish()


def check_C17(c):
    c.model("ModesEnum", "ModesEnum.cfg", note="theorems over the FULL domains: FromWire(ToWire(m)) = m for all 28672 modes, ToWire(FromWire(w)) = w for all wire words with a known type, ChmodPerm")
    c.cov["exhaustive"] = True
    rc, out, path = c.run("TestVerif_ModesTable", timeout=3000)
    ev = vlib.read_ndjson(path)
    n = sum(1 for e in ev if e.get("ev") in ("W", "M"))
    c.cov["evaluations"] += n
    c.cov["distinct_nontrivial"] += n
    found = c.validate("TraceModes", "TraceModes.cfg", path)
    rc, out, path2 = c.run("TestVerif_ModesFS", timeout=3000)
    ev2 = vlib.read_ndjson(path2)
    n2 = sum(1 for e in ev2 if e.get("ev") in ("FsStat", "Setstat", "LongName"))
    c.cov["evaluations"] += n2
    c.cov["distinct_nontrivial"] += n2
    skipped = [e.get("skipped") for e in ev2 if e.get("ev") == "Note" and e.get("skipped")]
    c.cov["harness"]["file_kinds_not_creatable"] = skipped
    found += c.validate("TraceModes", "TraceModes.cfg", path2)
    c.cov["rule"] = ("all 65536 wire mode words through toFileMode/isRegular/FileMode.String and all 28672 os modes (7 types x 512 permissions x 8 special-bit sets) through fromFileMode/"
                     "toChmodPerm and back (exhaustive); Stat/Lstat/ReadDir of every file kind the host can create against os.Lstat, long names of listed entries against their attributes, "
                     "SETSTAT/FSETSTAT with all 16 flag subsets on file/dir/symlink targets")
    for f in found:
        e = f["line"]
        msg = f["state"].get("c17", "").strip('"')
        key = "Inv_C17,%s" % e.get("ev")
        if e.get("ev") in ("W", "M"):
            key += ",typ=%s" % (e.get("typ"))
        elif e.get("ev") == "Setstat":
            key += ",via=%s,flags=%s,target=%s" % (e.get("via"), e.get("flags"), e.get("target"))
        elif e.get("ev") == "FsStat":
            key += ",via=%s,name=%s" % (e.get("via"), e.get("name"))
        c.violation(key, "%s: %s" % (msg, json.dumps(e)[:300]), {"module": "TraceModes", "case": e, "tlc": msg})
    c.assumptions += ["os.FileMode is logged in structured form (type, permission, special bits): TLC integers are 32 bit",
                      "file-system part runs as root on this kernel/file system; kinds that cannot be created are listed in the evidence"]
    return c.finish()


def export_table_cfg(c, module, cfg, name):
    return export_table(c, module, cfg, name)


def check_C06(c):
    cfg = "WireEnum.quick.cfg" if c.tier == "quick" else "WireEnum.thorough.cfg"
    scen, cases = export_table(c, "WireEnum", cfg, "scen_wire.json")
    c.cov["tlc_runs"][-1]["note"] = "theorems Thm_RoundTrip (DecFrame(Enc(p)) = p) and Thm_Length checked on every enumerated packet"
    rc, out, path = c.run("TestVerif_WireTable", env={"VERIF_SCEN": scen}, timeout=3000)
    ev = vlib.read_ndjson(path)
    c.cov["evaluations"] += len(cases)
    c.cov["distinct_nontrivial"] += len(cases)
    found = c.validate("TraceWire", "TraceWire.cfg", path)
    rc, out, path2 = c.run("TestVerif_WireRandom", timeout=3000)
    ev2 = vlib.read_ndjson(path2)
    n2 = sum(1 for e in ev2 if e.get("ev") == "WireEnc")
    c.cov["evaluations"] += n2
    c.cov["distinct_nontrivial"] += n2
    found += c.validate("TraceWire", "TraceWire.cfg", path2)
    c.cov["exhaustive"] = False
    c.cov["rule"] = ("(B) packets enumerated by WireEnum.tla over boundary domains - ids {0,1,2^31,2^32-1}, offsets, strings (empty, path, non-UTF-8, long), payload lengths, all 32 "
                     "attribute-flag subsets with small/maximal values, 0-2 extended attributes, 0-3 name entries, the four OpenSSH extensions - each with its reference encoding computed by "
                     "TLC, replayed into both Go codecs (encode and decode); (A) seeded random packets encoded by both codecs and checked against Enc by TLC")
    for f in found:
        e = f["line"]
        msg = f["state"].get("c06", "").strip('"')
        detail = ""
        for k in ("pkgenc", "pkgdec", "fxenc", "fxdec"):
            if e.get(k) not in ("", "n/a", None):
                detail = "%s: %s" % (k, e.get(k))
                break
        key = "Inv_C06,typ=%s,%s" % (e.get("typ", e.get("t")), detail.split(":")[0] if detail else e.get("ev"))
        c.violation(key, "%s (%s)" % (msg, detail[:300]), {"module": "TraceWire", "case": {k: v for k, v in e.items() if k not in ("b1", "b2")}, "tlc": msg})
    c.assumptions += ["equality is established on the enumerated boundary domains and seeded samples, not for all values (layouts are parametric in the values)",
                      "MKDIR with non-empty attributes and ATTRS replies are only constructible in the filexfer codec (the wire codec builds ATTRS from os.FileInfo)"]
    return c.finish()


def check_C08(c):
    c.model("Framer", "Framer.cfg", note="framing state machine: every chunking of the reader, EOF / error at every byte, declared lengths around the limit; refuse-before-body, no short delivery, totality (liveness)")
    c.model("Framer", "Framer.abl_CheckBeforeBody.cfg", must="fail", expect="Inv_C08_RefuseBeforeBody", note="length limit checked only after the body was read")
    cfg = "WireEnum.quick.cfg"
    scen, cases = export_table(c, "WireEnum", cfg, "scen_wire.json")
    c.cov["tlc_runs"][-1]["note"] = "valid encodings that are mutated; Thm_RoundTrip shows Wire.tla's decoder is total on them"
    path, crashed = run_crashy(c, "TestVerif_Decode", env={"VERIF_SCEN": scen}, timeout=3000)
    ev = vlib.read_ndjson(path)
    n = sum(1 for e in ev if e.get("ev") in ("Frame", "Dec"))
    c.cov["evaluations"] += n
    c.cov["distinct_nontrivial"] += len({(e.get("entry"), e.get("desc"), e.get("t")) for e in ev if e.get("ev") in ("Frame", "Dec")})
    c.cov["exhaustive"] = False
    c.cov["rule"] = ("a case is one call of a decoding entry point (recvPacket with/without allocator, filexfer readPacket, makePacket incl. lazily decoded attributes, every filexfer "
                     "UnmarshalPacketBody / UnmarshalBinary, attribute / name-list / extension-pair decoders of both codecs) on a mutated input: every truncation point, every length or "
                     "count field replaced by {0,1,n-1,n+1,2^31-1,2^32-1,256Ki,256Ki+1}, type bytes, random bytes; distinct = distinct (entry point, packet, mutation)")
    for cr in crashed:
        h = cr["head"]
        site = re.findall(r"github.com/pkg/sftp[\w/.]*\.(\S+?)\(", cr["stack"])
        c.violation("crash,site=%s" % (site[0] if site else "?"), "process died while decoding mutations of a %s packet (case %s): %s" % (h.get("typ"), h.get("case"), cr["panic"]),
                    {"case": h, "panic": cr["panic"], "stack": cr["stack"]})
    found = c.validate("TraceDecode", "TraceDecode.cfg", path)
    for f in found:
        e = f["line"]
        msg = f["state"].get("c08", "").strip('"')
        what = "panic" if e.get("class") == "panic" else ("alloc" if "alloc" in msg else "framing")
        key = "Inv_C08,entry=%s,%s" % (e.get("entry"), what)
        c.violation(key, "%s: %s" % (msg, json.dumps({k: e.get(k) for k in ("entry", "desc", "typ", "inlen", "class", "alloc", "consumed", "outlen", "detail", "hi", "lo")})[:400]),
                    {"module": "TraceDecode", "case": e, "tlc": msg, "packet": f["trace"][0]})
    c.assumptions += ["allocation = runtime.MemStats.TotalAlloc delta around the call in a single-goroutine process; bound 64 x input + 8 KiB (framing: 2 x declared + 8 KiB)",
                      "the allocator's 256 KiB page pool is warmed before the call (its pages are not the decoder's allocation)"]
    return c.finish()


def check_C20(c):
    c.model("ClientConn", "ClientConn.quick.cfg", note="the connection model shared with C03/C04: a reply with an unknown id or a failed read takes the clean-failure path (broadcast, all callers return)")
    scen, cases = export_table(c, "WireEnum", "WireEnum.quick.cfg", "scen_wire.json")
    c.cov["tlc_runs"][-1]["note"] = "Wire.tla's decoder (total; theorems on the enumeration) is the oracle for which replies are malformed"
    path, crashed = run_crashy(c, "TestVerif_Replies", timeout=3000)
    ev = vlib.read_ndjson(path)
    rc_ev = [e for e in ev if e.get("ev") == "ReplyCase"]
    c.cov["evaluations"] += len(rc_ev)
    c.cov["distinct_nontrivial"] += len({(e.get("op"), e.get("mut")) for e in rc_ev if e.get("reached")})
    c.cov["exhaustive"] = False
    c.cov["rule"] = ("a case is one (client operation, target request of the operation, mutated reply): 36 operations of Client and File (single requests, listings, sequential and concurrent "
                     "multi-chunk transfers with the bad reply at chunk j) x {cut at every byte, every length/count field in {0,1,n-1,n+1,2^31-1,2^32-1,2^29,2^28}, reply type replaced, id replaced, "
                     "frames without id, random bodies}; non-trivial = the mutated reply was actually sent; quick replays a seeded third")
    for cr in crashed:
        h = cr["head"]
        site = re.findall(r"github.com/pkg/sftp\.(\S+?)\(", cr["stack"])
        site = [s for s in site if "Verif" not in s and "runReply" not in s]
        c.violation("crash,op=%s,site=%s" % (h.get("op"), site[0] if site else "?"),
                    "the process died (panic in a goroutine of the package) on reply case %s: %s %s: %s" % (h.get("case"), h.get("op"), h.get("mut"), cr["panic"]),
                    {"case": h, "panic": cr["panic"], "stack": cr["stack"]})
    found = c.validate("TraceReply", "TraceReply.cfg", path)
    for f in found:
        e = f["line"]
        msg = f["state"].get("c20", "").strip('"')
        what = "panic" if e.get("panic") else ("hang" if not e.get("returned") else ("alloc" if "proportion" in msg else ("aftermath" if "neither" in msg else "value")))
        c.violation("Inv_C20,op=%s,%s" % (e.get("op"), what), "%s: %s" % (msg, json.dumps({k: e.get(k) for k in ("op", "mut", "panic", "err", "alloc", "usable", "failedclean")})[:400]),
                    {"module": "TraceReply", "case": {k: v for k, v in e.items()}, "tlc": msg})
    c.assumptions += ["a STATUS reply without message / language tag is accepted by the client on purpose (many servers send it); 'malformed => no value' is checked for HANDLE/DATA/NAME/ATTRS replies",
                      "allocation bound 64 x reply + 300 KB (the operation's own buffers included); measured around the call"]
    return c.finish()


def check_C05(c):
    c.model("FsModel", "FsModel.quick.cfg", note="every reachable tree with <= 3 nodes over names {a,b,c} (files, directories, links to siblings incl. dangling and self-referential) x every operation instance; structural invariant of the tree")
    if c.tier == "thorough":
        c.model("FsModel", "FsModel.thorough.cfg", timeout=6000, note="<= 4 nodes")
    scen = export_scen(c, "FsModelScen", "FsModelScen.cfg", 150 if c.tier == "quick" else 4000, lambda s, i: s, "scen_fs.json", depth=14)
    rc, out, path = c.run("TestVerif_FsDiff", env={"VERIF_SCEN": scen}, timeout=6000)
    ev = vlib.read_ndjson(path)
    steps = [e for e in ev if e.get("ev") == "FsStep"]
    c.cov["evaluations"] += len(steps)
    c.cov["distinct_nontrivial"] += len({(e.get("op"), json.dumps(e.get("p")), json.dumps(e.get("q")), e.get("k"), e.get("ocat"), e.get("t")) for e in steps if e.get("ocat") == "ok" or e.get("mcat")})
    # the model against its arbiter (package os): disagreements are model errors - reported, never a verdict
    modelled = [e for e in steps if e.get("mcat")]
    drift = [e for e in modelled if e.get("mcat") != e.get("ocat")]
    c.cov["harness"]["model_steps"] = len(modelled)
    c.cov["harness"]["model_disagrees_with_os"] = len(drift)
    c.cov["harness"]["model_drift_samples"] = [{k: e.get(k) for k in ("op", "p", "q", "k", "mcat", "ocat", "oerr")} for e in drift[:5]]
    c.cov["rule"] = ("a case is one step of an operation sequence over names {a,b,c} at depth <= 2 (random walks of FsModel.tla with the model's prediction, and seeded sequences that add "
                     "MkdirAll/RemoveAll/Glob/Walk/Chtimes/RealPath/StatVFS), executed through Client+Server and with package os on twin trees, absolute and working-directory-relative; "
                     "non-trivial = the os call succeeded or the step is modelled")
    found = c.validate("TraceFs", "TraceFs.cfg", path)
    for f in found:
        e = f["line"]
        head = f["trace"][0]
        msg = f["state"].get("c05", "").strip('"')
        what = "category" if "category" in msg else ("tree" if "tree" in msg else "value")
        c.violation("Inv_C05,op=%s,%s,rel=%s" % (e.get("op"), what, head.get("rel")),
                    "%s: %s" % (msg, json.dumps({k: e.get(k) for k in ("op", "p", "q", "k", "scat", "ocat", "sval", "oval", "treeeq", "serr", "oerr")})[:500]),
                    {"module": "TraceFs", "step": e, "sequence": [x for x in f["trace"] if x.get("ev") == "FsStep"][:20], "tlc": msg})
    c.assumptions += ["package os on this kernel / file system, uid 0, is the arbiter; the permission category is reached through EPERM (hard link to a directory)",
                      "RMDIR is compared with os.Remove (the call the server maps it to); RemoveAll of a missing path is not compared (documented difference)"]
    return c.finish()
