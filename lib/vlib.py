#!/usr/bin/env python3
"""Driver library for the TLA+-bound checks of pkg/sftp.

Pipeline of a check (see DESIGN.md section 6):
  1. TLC model-checks the specification(s) of the property (states / transitions -> evidence)
  2. (optionally) TLC exports scenarios; the Go harness replays them on the real code
  3. the Go harness (overlay-compiled INTO package sftp from /repo's working tree, tag `verif`)
     drives the real code and records NDJSON traces
  4. TLC validates the recorded traces against the property-level Trace*.tla specification
  5. evidence JSON, known-finding matching, exit code (0 held / 1 violation / 2 machinery problem)
"""
import atexit, json, os, re, shutil, signal, subprocess, sys, time, glob, hashlib

ROOT = os.path.dirname(os.path.dirname(os.path.abspath(__file__)))
REPO = os.environ.get("VERIF_REPO") or "/repo"
SPEC = os.path.join(ROOT, "spec")
HARNESS = os.path.join(ROOT, "harness")
WORKROOT = os.path.join(ROOT, ".work")
NCPU = os.cpu_count() or 4


class Machinery(Exception):
    """Something in the checking machinery failed (exit 2, never a verdict)."""


def log(*a):
    print(*a, file=sys.stderr, flush=True)


# ----------------------------------------------------------------------------- work dirs

_workdirs = []


def workdir(tag):
    os.makedirs(WORKROOT, exist_ok=True)
    d = os.path.join(WORKROOT, "%s.%d" % (tag, os.getpid()))
    shutil.rmtree(d, ignore_errors=True)
    os.makedirs(d)
    _workdirs.append(d)
    return d


def _cleanup():
    if os.environ.get("VERIF_KEEP"):
        return
    for d in _workdirs:
        shutil.rmtree(d, ignore_errors=True)


atexit.register(_cleanup)


def goenv():
    e = dict(os.environ)
    e["GOFLAGS"] = "-mod=mod"
    e["GOPROXY"] = "off"
    e.pop("GOTOOLCHAIN", None)  # must stay auto: go.mod wants 1.25 and /usr/bin/go switches to the cached toolchain
    e.pop("GOSUMDB", None)
    return e


# ----------------------------------------------------------------------------- go harness

def build_harness(wd, tags="verif"):
    """Compile the test binary of package sftp from /repo's CURRENT working tree with the harness overlaid."""
    repl = {}
    for f in sorted(glob.glob(os.path.join(HARNESS, "*_test.go"))):
        repl[os.path.join(REPO, "zz_verif_" + os.path.basename(f))] = f
    ov = os.path.join(wd, "overlay.json")
    with open(ov, "w") as fh:
        json.dump({"Replace": repl}, fh)
    out = os.path.join(wd, "verif.test")
    cmd = ["go", "test", "-c", "-vet=off", "-tags", tags, "-overlay", ov, "-o", out, "."]
    p = subprocess.run(cmd, cwd=REPO, env=goenv(), stdout=subprocess.PIPE, stderr=subprocess.STDOUT, text=True, timeout=900)
    if p.returncode != 0 or not os.path.exists(out):
        raise Machinery("harness build failed:\n" + p.stdout[-4000:])
    return out


def run_harness(binary, run, env=None, timeout=600, cwd=None, extra=()):
    """Run test(s) of the harness binary. Returns (rc, output). rc None = timeout."""
    e = goenv()
    e.update({k: str(v) for k, v in (env or {}).items()})
    cmd = [binary, "-test.run", "^(" + run + ")$", "-test.count=1", "-test.timeout=%ds" % (timeout + 30), "-test.v"] + list(extra)
    try:
        p = subprocess.run(cmd, cwd=cwd or REPO, env=e, stdout=subprocess.PIPE, stderr=subprocess.STDOUT, text=True,
                           timeout=timeout, errors="replace")
        return p.returncode, p.stdout
    except subprocess.TimeoutExpired as ex:
        out = ex.stdout or ""
        if isinstance(out, bytes):
            out = out.decode(errors="replace")
        return None, out


# ----------------------------------------------------------------------------- TLC

class TLCResult:
    def __init__(self):
        self.ok = False
        self.generated = 0
        self.distinct = 0
        self.depth = 0
        self.violated = None      # name of violated invariant / property
        self.error = None         # other error text
        self.last_state = {}      # var -> text in the last state of the error trace
        self.trace_len = 0
        self.raw = ""
        self.wall = 0.0
        self.coverage_zero = []


_num = lambda s: int(s.replace(",", ""))


def tlc(module, cfg, wd, workers=None, timeout=600, extra=(), files=(), env=None, jvm=None, simulate=None, depth=None):
    """Run TLC on spec/<module>.tla with spec/<cfg> in a scratch directory (tools litter)."""
    run = os.path.join(wd, "tlc_%s_%d" % (re.sub(r"\W", "_", cfg), int(time.time() * 1000) % 100000))
    os.makedirs(run, exist_ok=True)
    for f in glob.glob(os.path.join(SPEC, "*.tla")):
        shutil.copy(f, run)
    shutil.copy(os.path.join(SPEC, cfg), os.path.join(run, cfg))
    for f in files:
        shutil.copy(f, run)
    cmd = ["tlc", "-metadir", os.path.join(run, "meta"), "-config", cfg, "-noGenerateSpecTE"]
    cmd += ["-workers", str(workers or "auto")]
    if simulate:
        cmd += ["-simulate", simulate]
    if depth:
        cmd += ["-depth", str(depth)]
    cmd += list(extra) + [module + ".tla"]
    e = dict(os.environ)
    if jvm:
        e["JAVA_TOOL_OPTIONS"] = jvm
    if env:
        e.update(env)
    r = TLCResult()
    t0 = time.time()
    try:
        p = subprocess.run(cmd, cwd=run, env=e, stdout=subprocess.PIPE, stderr=subprocess.STDOUT, text=True, timeout=timeout,
                           errors="replace")
        r.raw = p.stdout
        rc = p.returncode
    except subprocess.TimeoutExpired as ex:
        out = ex.stdout or ""
        if isinstance(out, bytes):
            out = out.decode(errors="replace")
        r.raw = out
        r.error = "timeout after %ds" % timeout
        rc = None
        subprocess.run(["pkill", "-f", os.path.join(run, "meta")], stdout=subprocess.DEVNULL, stderr=subprocess.DEVNULL)
    r.wall = time.time() - t0
    r.rundir = run
    m = None
    for m in re.finditer(r"([\d,]+) states generated, ([\d,]+) distinct states found", r.raw):
        pass
    if m:
        r.generated, r.distinct = _num(m.group(1)), _num(m.group(2))
    m = re.search(r"The depth of the complete state graph search is (\d+)", r.raw)
    if m:
        r.depth = int(m.group(1))
    m = re.search(r"Invariant (\S+) is violated", r.raw)
    if m:
        r.violated = m.group(1)
    m2 = re.search(r"Temporal properties were violated|Action property (\S+) is violated|property (\S+) is violated", r.raw)
    if m2 and not r.violated:
        r.violated = m2.group(1) or m2.group(2) or "temporal"
    if "Deadlock reached" in r.raw and not r.violated:
        r.violated = "Deadlock"
    # last state of the error trace
    states = re.split(r"\nState (\d+): ", r.raw)
    if len(states) > 2:
        r.trace_len = int(states[-2])
        body = states[-1].split("\n\n")[0]
        for mm in re.finditer(r"^/\\ (\w+) = (.*?)(?=^/\\ |\Z)", body, re.S | re.M):
            r.last_state[mm.group(1)] = mm.group(2).strip()
    if rc == 0 and "Model checking completed. No error has been found" in r.raw:
        r.ok = True
    elif rc == 0 and simulate and not r.violated and "Error:" not in r.raw:
        r.ok = True
    elif not r.violated and r.error is None:
        em = re.search(r"Error: (.*?)(?:\n\n|\Z)", r.raw, re.S)
        r.error = (em.group(1) if em else "tlc exit %s" % rc)[:2000]
    return r


def tlc_must_pass(module, cfg, wd, **kw):
    r = tlc(module, cfg, wd, **kw)
    if not r.ok:
        raise Machinery("TLC %s/%s did not pass: violated=%s error=%s\n%s" % (module, cfg, r.violated, r.error, r.raw[-3000:]))
    return r


def tlc_must_fail(module, cfg, wd, expect=None, **kw):
    """Ablation run: the model with a protecting mechanism removed MUST violate `expect`."""
    r = tlc(module, cfg, wd, **kw)
    if r.ok or not r.violated or (expect and r.violated != expect):
        raise Machinery("ablation %s/%s: expected violation of %s, got ok=%s violated=%s error=%s" % (
            module, cfg, expect, r.ok, r.violated, r.error))
    return r


def sany(wd):
    run = os.path.join(wd, "sany")
    os.makedirs(run, exist_ok=True)
    for f in glob.glob(os.path.join(SPEC, "*.tla")):
        shutil.copy(f, run)
    # the proof modules EXTEND TLAPS, which lives in the proof system's library, not on SANY's class path
    tlaps_lib = "/opt/veriftools/tlapm/lib/tlapm/stdlib/TLAPS.tla"
    have_tlaps = os.path.exists(tlaps_lib)
    mine = sorted(glob.glob(os.path.join(run, "*.tla")))
    if have_tlaps:
        shutil.copy(tlaps_lib, run)
    bad = []
    for f in mine:
        if f.endswith("Proof.tla") and not have_tlaps:
            continue
        p = subprocess.run(["tla-sany", os.path.basename(f)], cwd=run, stdout=subprocess.PIPE, stderr=subprocess.STDOUT, text=True)
        if p.returncode != 0 or "Semantic errors" in p.stdout or "*** Errors" in p.stdout or "Fatal errors" in p.stdout or "Could not parse" in p.stdout:
            bad.append((os.path.basename(f), p.stdout[-1500:]))
    return bad


# ----------------------------------------------------------------------------- traces

def read_ndjson(path):
    out = []
    with open(path, errors="replace") as fh:
        for line in fh:
            line = line.strip()
            if line:
                out.append(json.loads(line))
    return out


def split_traces(events):
    """Split a concatenated trace file into traces (each starts with a Reset event)."""
    traces, cur = [], None
    for e in events:
        if e.get("ev") == "Reset" or cur is None:
            cur = []
            traces.append(cur)
        cur.append(e)
    return traces


def validate_trace(module, cfg, wd, trace_path, timeout=900, name="trace.ndjson", jvm=None, workers=1):
    """TLC trace validation. The Trace*.tla specs are deterministic recorders with the property as
    INVARIANTS and a `bad` variable for events the spec cannot parse. Returns (TLCResult, n_events)."""
    n = sum(1 for l in open(trace_path) if l.strip())
    dst = os.path.join(wd, name)
    if os.path.abspath(trace_path) != os.path.abspath(dst):
        shutil.copy(trace_path, dst)
    r = tlc(module, cfg, wd, workers=workers, timeout=timeout, files=[dst], jvm=jvm)
    return r, n


def violating_line(r):
    """1-based index of the trace line consumed last before the violation (variable l in the trace specs
    is the index of the NEXT line to consume)."""
    try:
        return int(r.last_state.get("l", "0")) - 1
    except ValueError:
        return None


# ----------------------------------------------------------------------------- known findings

def load_known(prop):
    known, fixed = [], []
    p = os.path.join(ROOT, "KNOWN_FINDINGS.txt")
    if os.path.exists(p):
        for line in open(p):
            line = line.strip()
            if not line or line.startswith("#"):
                continue
            m = re.match(r"known: property=(\S+) key=(\S+) (.*)", line)
            if m and m.group(1) == prop:
                known.append((m.group(2), m.group(3)))
            m = re.match(r"fixed: property=(\S+) (\S+) (.*)", line)
            if m and m.group(1) == prop:
                fixed.append((m.group(2), m.group(3)))
    return known, fixed


# ----------------------------------------------------------------------------- the check object

class Check:
    def __init__(self, prop, tier):
        self.prop = prop
        self.tier = tier
        self.seed = int(os.environ.get("VERIF_SEED", "1"))
        self.t0 = time.time()
        self.wd = workdir(prop)
        self.cov = {"states": 0, "transitions": 0, "traces_validated_against_impl": 0, "samples": [],
                    "evaluations": 0, "distinct_nontrivial": 0, "rule": "", "exhaustive": False,
                    "tlc_runs": [], "ablations": [], "harness": {}}
        self.assumptions = []
        self.violations = []   # (key, description, replay_path)
        self.known_hits = []
        self.level = "model_checking"
        os.environ["VERIF_TIER"] = tier
        os.environ["VERIF_SEED"] = str(self.seed)

    # ---- model runs
    def model(self, module, cfg, must="pass", expect=None, note="", **kw):
        if must == "pass":
            r = tlc_must_pass(module, cfg, self.wd, **kw)
            self.cov["states"] += r.distinct
            self.cov["transitions"] += r.generated
            self.cov["tlc_runs"].append({"module": module, "cfg": cfg, "distinct": r.distinct, "generated": r.generated,
                                         "depth": r.depth, "wall_s": round(r.wall, 1), "note": note})
        else:
            r = tlc_must_fail(module, cfg, self.wd, expect=expect, **kw)
            self.cov["ablations"].append({"module": module, "cfg": cfg, "violated": r.violated, "trace_len": r.trace_len,
                                          "wall_s": round(r.wall, 1), "note": note})
        log("[%s] TLC %s %s: %s distinct=%d generated=%d %.1fs" % (self.prop, module, cfg,
            "ok" if must == "pass" else "ablation violated " + str(r.violated), r.distinct, r.generated, r.wall))
        return r

    def proof(self, module, note="", timeout=900):
        """TLAPS: an unbounded inductive-invariant proof that complements the bounded TLC run (a bonus, never a verdict;
        its status is recorded in the evidence)."""
        wd = os.path.join(self.wd, "tlaps_" + module)
        os.makedirs(wd, exist_ok=True)
        for f in os.listdir(SPEC):
            if f.endswith(".tla"):
                shutil.copy(os.path.join(SPEC, f), wd)
        t = time.time()
        rec = {"module": module, "note": note}
        try:
            r = subprocess.run(["tlapm", "--threads", "8", module + ".tla"], cwd=wd, capture_output=True, text=True, timeout=timeout)
            out = r.stdout + r.stderr
            m = re.search(r"All (\d+) obligations? proved", out)
            if r.returncode == 0 and m:
                rec.update(status="proved", obligations_proved=int(m.group(1)))
            else:
                rec.update(status="not proved", output=out[-1500:])
        except (FileNotFoundError, subprocess.TimeoutExpired) as ex:
            rec.update(status="not run", output=str(ex)[:300])
        rec["wall_s"] = round(time.time() - t, 1)
        # the proof is a bonus on top of the bounded TLC run of the same invariant: it never decides the check
        self.cov.setdefault("proofs", []).append(rec)
        log("[%s] TLAPS %s: %s %s %.1fs" % (self.prop, module, rec["status"], rec.get("obligations_proved", ""), rec["wall_s"]))

    # ---- harness
    def harness(self):
        if not hasattr(self, "_bin"):
            t = time.time()
            self._bin = build_harness(self.wd)
            log("[%s] harness built in %.1fs" % (self.prop, time.time() - t))
        return self._bin

    def run(self, test, env=None, timeout=900, out=None, allow_fail=False):
        out = out or ("rec_%s.ndjson" % re.sub(r"\W", "_", test))
        path = os.path.join(self.wd, out)
        e = {"VERIF_OUT": path, "VERIF_WORK": self.wd}
        e.update(env or {})
        t = time.time()
        rc, output = run_harness(self.harness(), test, env=e, timeout=timeout, cwd=self.wd)
        log("[%s] harness %s rc=%s %.1fs" % (self.prop, test, rc, time.time() - t))
        self.last_output = output
        try:
            with open(os.path.join(self.wd, "harness_%s.out" % re.sub(r"\W", "_", test)), "w") as fh:
                fh.write(output or "")
        except OSError:
            pass
        if rc is None:
            raise Machinery("harness %s timed out after %ds\n%s" % (test, timeout, output[-3000:]))
        if rc != 0 and not allow_fail:
            raise Machinery("harness %s failed (rc=%s):\n%s" % (test, rc, output[-6000:]))
        return rc, output, path

    # ---- trace validation: returns list of violation dicts
    def validate(self, module, cfg, trace_path, label="", timeout=1800, jvm=None):
        events = read_ndjson(trace_path)
        if not events:
            raise Machinery("no events recorded in %s" % trace_path)
        traces = split_traces(events)
        found = []
        pending = trace_path
        rounds = 0
        accepted = 0
        cur_events = events
        while True:
            rounds += 1
            r, n = validate_trace(module, cfg, self.wd, pending, timeout=timeout, jvm=jvm)
            if r.ok:
                if r.distinct != n + 1:
                    raise Machinery("trace validation %s: %d events but %d distinct states (spec not deterministic or trace not consumed)" % (module, n, r.distinct))
                accepted += len(split_traces(cur_events))
                break
            if not r.violated:
                raise Machinery("trace validation %s failed without an invariant violation: %s\n%s" % (module, r.error, r.raw[-3000:]))
            li = violating_line(r)
            if li is None or li < 1 or li > len(cur_events):
                raise Machinery("cannot locate violating line: %s" % r.last_state)
            tid = cur_events[li - 1].get("t")
            bad = [e for e in cur_events if e.get("t") == tid]
            found.append({"invariant": r.violated, "trace": bad, "line": cur_events[li - 1], "state": r.last_state, "label": label})
            if r.violated in ("Inv_WellFormed",):
                raise Machinery("trace not parseable by %s at %s (state %s)" % (module, cur_events[li - 1], r.last_state))
            # everything before the offending trace has been accepted (the recorder is deterministic, TLC explores it in
            # trace order): continue behind it, so that the REST of the run is still checked
            first_bad = next(i for i, e in enumerate(cur_events) if e.get("t") == tid)
            accepted += len(split_traces(cur_events[:first_bad])) if first_bad > 0 else 0
            last_bad = max(i for i, e in enumerate(cur_events) if e.get("t") == tid)
            cur_events = cur_events[last_bad + 1:]
            if not cur_events or rounds > 200:
                break
            pending = os.path.join(self.wd, "rest_%d.ndjson" % rounds)
            with open(pending, "w") as fh:
                for e in cur_events:
                    fh.write(json.dumps(e) + "\n")
        self.cov["traces_validated_against_impl"] += accepted
        self.cov["harness"].setdefault("events", 0)
        self.cov["harness"]["events"] += len(events)
        if traces and len(self.cov["samples"]) < 3:
            s = traces[min(len(traces) - 1, self.seed % len(traces))]
            self.cov["samples"].append({"kind": "recorded trace validated by %s" % module, "events": s[:40]})
        log("[%s] trace validation %s: %d events, %d traces, %d accepted, %d rejected" % (self.prop, module, len(events), len(traces), accepted, len(found)))
        if not found:
            selftest(self, module, cfg, trace_path)
        return found

    # ---- verdicts
    def violation(self, key, desc, replay_obj):
        d = os.path.join(os.environ.get("VERIF_REPLAY_DIR", os.path.join(ROOT, "replays")), self.prop)
        os.makedirs(d, exist_ok=True)
        h = hashlib.sha1((key + json.dumps(replay_obj, sort_keys=True, default=str)).encode()).hexdigest()[:10]
        path = os.path.join(d, "%s_%s.json" % (re.sub(r"[^\w.=-]", "_", key)[:80], h))
        with open(path, "w") as fh:
            json.dump({"property": self.prop, "key": key, "description": desc, "tier": self.tier, "seed": self.seed,
                       "replay": replay_obj,
                       "rerun": "cd /verif && VERIF_SEED=%d bin/check %s %s" % (self.seed, self.prop, self.tier)}, fh, indent=1, default=str)
        self.violations.append((key, desc, path))

    def finish(self):
        known, fixed = load_known(self.prop)
        kmap = dict(known)
        new = []
        seen_known = {}
        for key, desc, path in self.violations:
            if key in kmap:
                seen_known.setdefault(key, (kmap[key], 0))
                seen_known[key] = (kmap[key], seen_known[key][1] + 1)
            else:
                new.append((key, desc, path))
        for key, (what, cnt) in sorted(seen_known.items()):
            print("KNOWN-FINDING: property=%s %s [key=%s, %d occurrence(s) in this run]" % (self.prop, what, key, cnt))
        for key, desc, path in new:
            print("VIOLATION property=%s replay=%s" % (self.prop, path))
            print("  key=%s %s" % (key, desc))
        ev = {"property_id": self.prop, "tier": self.tier, "seed": self.seed, "level": self.level,
              "coverage": self.cov, "assumptions": self.assumptions, "wall_s": round(time.time() - self.t0, 1),
              "violations": len(new)}
        self.cov["known_findings_seen"] = {k: v[1] for k, v in seen_known.items()}
        if not self.cov["samples"]:
            self.cov["samples"] = [{"note": "no sample recorded"}]
        evdir = os.environ.get("VERIF_EVIDENCE_DIR", os.path.join(ROOT, "evidence"))
        os.makedirs(evdir, exist_ok=True)
        with open(os.path.join(evdir, self.prop + ".json"), "w") as fh:
            json.dump(ev, fh, indent=1, default=str)
        print("[%s] %s tier=%s seed=%d states=%d transitions=%d traces=%d evaluations=%d wall=%.1fs violations=%d known=%d" % (
            self.prop, "HELD" if not new else "VIOLATED", self.tier, self.seed, self.cov["states"], self.cov["transitions"],
            self.cov["traces_validated_against_impl"], self.cov["evaluations"], time.time() - self.t0, len(new), len(seen_known)))
        return 1 if new else 0


def main(fn):
    """Wrap a check function: exit 2 on machinery problems (never a VIOLATION line)."""
    try:
        rc = fn()
    except Machinery as ex:
        print("MACHINERY-ERROR: %s" % ex)
        sys.exit(2)
    except subprocess.TimeoutExpired as ex:
        print("MACHINERY-ERROR: timeout %s" % ex)
        sys.exit(2)
    sys.exit(rc)


# ----------------------------------------------------------------------------- binding self-test
# "A spec nothing binds to the code": corrupt one recorded field (or drop one event) of a trace the spec accepted and
# require TLC to reject it. Run in the thorough tier (and with VERIF_SELFTEST=1). A corrupted trace that is still accepted
# is a machinery error (exit 2), never a verdict.

def _first(events, pred):
    for i, e in enumerate(events):
        if pred(e):
            return i
    return None


def _mut_TraceServer(ev):
    out = []
    # (1) swap the ids of two responses of the same trace
    resp = [i for i, e in enumerate(ev) if e.get("ev") == "Resp"]
    for a in range(len(resp) - 1):
        i, j = resp[a], resp[a + 1]
        if ev[i].get("t") == ev[j].get("t") and ev[i].get("id") != ev[j].get("id"):
            m = [dict(x) for x in ev]
            m[i]["id"], m[j]["id"] = ev[j]["id"], ev[i]["id"]
            out.append(("C02", "swap two response ids", m))
            break
    # (2) drop a PmSend event that is followed by a page release of the same order
    i = _first(ev, lambda e: e.get("ev") == "PmSend" and any(x.get("ev") == "AllocRel" and x.get("o") == e.get("o") and x.get("t") == e.get("t") and x.get("n", 0) > 0 for x in ev))
    if i is not None:
        out.append(("C18", "drop a pm.send event", ev[:i] + ev[i + 1:]))
    # (3) drop the OpEnd of a read/write that precedes an object close
    i = _first(ev, lambda e: e.get("ev") == "OpEnd" and e.get("rw") in ("R", "W") and e.get("obj") in (1, 2))
    if i is not None and any(x.get("ev") == "ObjClose" and x.get("obj") == ev[i].get("obj") and x.get("t") == ev[i].get("t") for x in ev[i:]):
        out.append(("C14", "drop a handler return event", ev[:i] + ev[i + 1:]))
    return out


def _flip(ev, name, field, newval, desc, tag="*"):
    i = _first(ev, lambda e: e.get("ev") == name and field in e and (e[field] != newval(e) if callable(newval) else e[field] != newval))
    if i is None:
        return []
    m = [dict(x) for x in ev]
    m[i][field] = newval(m[i]) if callable(newval) else newval
    return [(tag, desc, m)]


MUTATORS = {
    "TraceServer": _mut_TraceServer,
    "TraceSession": lambda ev: _flip(ev, "ObjFinal", "nclose", lambda e: e["nclose"] + 1, "one more Close on an object"),
    "TraceStream": lambda ev: _flip(ev, "Compare", "stateEqual", False, "state differs from the reference run") + _flip(ev, "RunEnd", "goroutines", 1, "a goroutine left behind"),
    "TraceClient": lambda ev: _flip(ev, "Ret", "got", lambda e: e["got"] + "x", "a call got another value", "C03") + _flip(ev, "End", "goroutines", 1, "a goroutine left behind", "C04"),
    "TraceFile": lambda ev: _flip(ev, "FRet", "n", lambda e: e["n"] + 1, "count off by one", "C01,C13") + _flip(ev, "FRet", "pos", lambda e: e["pos"] + 1 if e["pos"] >= 0 else 5, "offset off by one", "C12"),
    "TraceRO": lambda ev: _flip(ev, "ROCase", "same", False, "tree changed"),
    "TraceHS": lambda ev: _flip(ev, "HSReply", "established", lambda e: not e["established"], "handshake outcome inverted"),
    "TraceLs": lambda ev: _flip(ev, "LsResult", "got", lambda e: e["got"][1:] if e["got"] else ["00"], "one entry lost"),
    "TraceAdapter": lambda ev: _flip(ev, "AdPath", "got", lambda e: e["got"] + "/..", "path not clean"),
    "TraceModes": lambda ev: _flip(ev, "W", "perm", lambda e: (e["perm"] + 1) % 512, "permission bit changed"),
    "TraceWire": lambda ev: _flip(ev, "WireEnc", "b1", lambda e: e["b1"][:-1], "one byte missing in an encoding"),
    "TraceDecode": lambda ev: _flip(ev, "Dec", "class", "panic", "a decoder panicked"),
    "TraceReply": lambda ev: _flip(ev, "ReplyCase", "returned", False, "a call did not return"),
    "TraceFs": lambda ev: _flip(ev, "FsStep", "treeeq", False, "trees differ"),
}


def selftest(check, module, cfg, trace_path):
    if check.tier != "thorough" and not os.environ.get("VERIF_SELFTEST"):
        return
    mut = MUTATORS.get(module)
    if mut is None:
        return
    events = read_ndjson(trace_path)
    # work on a prefix of whole traces to keep TLC short
    traces = split_traces(events)
    subset = [e for t in traces[:40] for e in t]
    done = []
    for tag, desc, m in mut(subset):
        if tag != "*" and check.prop not in tag.split(","):
            continue
        p = os.path.join(check.wd, "selftest.ndjson")
        with open(p, "w") as fh:
            for e in m:
                fh.write(json.dumps(e) + "\n")
        r, n = validate_trace(module, cfg, check.wd, p)
        if r.ok or not r.violated or r.violated == "Inv_WellFormed":
            raise Machinery("binding self-test: %s accepted a corrupted trace (%s): violated=%s error=%s" % (module, desc, r.violated, r.error))
        done.append({"module": module, "corruption": desc, "rejected_by": r.violated})
        log("[%s] self-test: %s -> rejected by %s" % (check.prop, desc, r.violated))
    check.cov.setdefault("binding_selftest", []).extend(done)
