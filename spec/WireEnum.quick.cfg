SPECIFICATION Spec
CONSTANTS Level = 1
INVARIANTS Thm_RoundTrip Thm_Length Export
CHECK_DEADLOCK FALSE
