----------------------------- MODULE SessionScen -----------------------------
(* Scenario export for C11: behaviours of Session.tla printed as operation sequences. *)
EXTENDS Session, Json
VARIABLE sched
ScenInit == Init /\ sched = <<>>
Tag(x) == sched' = Append(sched, x)
ScenNext ==
  \/ OpenOk /\ Tag([op |-> "openok", h |-> NewHandle])
  \/ OpenFail(TRUE) /\ Tag([op |-> "openfail", h |-> 0])
  \/ \E h \in 1..(counter + 1) : Use(h) /\ Tag([op |-> "use", h |-> h])
  \/ \E h \in 1..(counter + 1) : Close(h, FALSE) /\ Tag([op |-> "close", h |-> h])
  \/ ConnEnd /\ nops >= 2 /\ UNCHANGED sched
  \/ Sweep /\ UNCHANGED sched
ScenSpec == ScenInit /\ [][ScenNext]_<<vars, sched>>
Export == phase = "returned" => PrintT(<<"SCEN", ToJson(sched)>>)
=============================================================================
