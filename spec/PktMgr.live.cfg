SPECIFICATION Spec
CONSTANTS
  NW = 2
  CapPkt = 1
  CapRW = 1
  CapCh = 1
  MaxReq = 3
  Handles = {"h1"}
  Kinds = {"R","C","M","X"}
  Barrier = TRUE
  DrainOnFini = TRUE
  ReleaseAfterSend = TRUE
  TagNextOrder = TRUE
  StopOnMalformed = TRUE
  UseAlloc = TRUE
PROPERTIES Live_Terminates
CHECK_DEADLOCK TRUE
