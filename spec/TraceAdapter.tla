---------------------------- MODULE TraceAdapter ----------------------------
(* Trace validation for C10: each case of the Adapter.tla tables on the real RequestServer with recording handlers;
   TLC re-evaluates Clean / Expect / ClientSees on the RECORDED inputs and compares with what the handlers / the client saw. *)
EXTENDS Adapter
Trace == ndJsonDeserialize("trace.ndjson")
VARIABLES l, bad, c10
vars == <<l, bad, c10>>
Init == l = 1 /\ bad = "" /\ c10 = ""
Set(v, cond, msg) == IF cond /\ v = "" THEN msg ELSE v
ToSet(s) == {s[i] : i \in 1..Len(s)}

ExpectedAtClient(e) == IF e.err = "fx:0" /\ e.wrap = "bare" /\ e.via # "cmd" THEN "novalue" ELSE ClientSees(e.err, e.wrap)

Step(e) ==
  CASE e.ev = "Reset" -> c10' = "" /\ UNCHANGED bad
    [] e.ev = "AdPath" ->
         LET want == PathString(Clean(e.start, EffAbs(e.abs, e.trail, e.segs), e.segs)) IN
         /\ c10' = Set(c10, e.ncalls # 1 \/ e.got # want \/ (e.req \in {"RENAME", "POSIX-RENAME", "HARDLINK", "SYMLINK"} /\ e.got2 # want) \/ ~e.verbatim,
                       IF e.ncalls # 1 THEN "the handler was not invoked exactly once"
                       ELSE IF ~e.verbatim THEN "a symlink's target text was not passed through verbatim"
                       ELSE "the handler saw a path that is not the clean absolute path relative to the start directory")
         /\ UNCHANGED bad
    [] e.ev = "AdDispatch" ->
         LET x == Expect(e.req, ToSet(e.has)) IN
         /\ c10' = Set(c10, (x.h = "none" /\ e.calls # <<>>) \/ (x.h = "object" /\ (e.calls # <<>> \/ e.objcalls # 1))
                              \/ (x.h = "mismatch" /\ (e.calls # <<>> \/ e.objcalls # 0 \/ e.replyok \/ ~e.unchanged))
                              \/ (x.h \notin {"none", "object", "mismatch"} /\ e.calls # <<[h |-> x.h, m |-> x.m]>>) \/ ~e.flagsok \/ ~e.attrsok,
                       IF x.h = "mismatch" THEN "a request that does not fit the kind of its handle reached a handler object or was answered as if it did"
                       ELSE IF ~e.flagsok THEN "open flags / attribute flags seen by the handler differ from what the client sent"
                       ELSE IF ~e.attrsok THEN "attribute values seen by the handler differ from what the client sent"
                       ELSE "the matching handler was not invoked exactly once with the expected method")
         /\ UNCHANGED bad
    [] e.ev = "AdError" ->
         \* a handler that answers a request for a value (open, stat) with the status code SSH_FX_OK delivers no value:
         \* the code travels as itself (STATUS OK on the wire) and the Client reports the missing value as an error
         /\ c10' = Set(c10, e.got # ExpectedAtClient(e) \/ ~e.textok,
                       IF e.got # ExpectedAtClient(e) THEN "a handler error did not reach the client unchanged in kind"
                       ELSE "a failure did not carry the text of the handler's error")
         /\ UNCHANGED bad
    [] e.ev \in {"Req", "Resp", "Setup", "ServeRet", "ConnClose", "PmFini", "Note", "Handler", "ObjOpen", "ObjClose", "OpBegin", "OpEnd", "ObjFinal", "ObjTErr",
                 "CcPut", "CcDeliver", "CcClosed"} -> UNCHANGED <<bad, c10>>
    [] OTHER -> bad' = "unknown event" /\ UNCHANGED c10
Next == l <= Len(Trace) /\ Step(Trace[l]) /\ l' = l + 1
Spec == Init /\ [][Next]_vars
Inv_WellFormed == bad = ""
Inv_C10 == c10 = ""
=============================================================================
