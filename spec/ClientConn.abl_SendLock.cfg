SPECIFICATION Spec
CONSTANTS
  Callers = {"a","b","c"}
  TwoWrites = {"a","b"}
  AtomicNextId = TRUE
  SendLock = FALSE
  DeleteOnGet = TRUE
  HijackOnBroadcast = TRUE
  RefuseAfterClosed = TRUE
  SendErrDelivered = TRUE
  AllowRdFail = TRUE
  AllowWrFail = TRUE
  AllowCancel = FALSE
  ChanCap1 = TRUE
  AtomicPutCheck = TRUE
  CloseStopsWrites = TRUE
  SendErrToRegistered = TRUE
  KeepSlotOnCancel = TRUE
INVARIANTS Inv_C03_Framing
CHECK_DEADLOCK TRUE
