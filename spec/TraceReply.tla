------------------------------ MODULE TraceReply ------------------------------
(* Trace validation for C20: every client operation against the scripted peer, which answers one chosen request of the
   operation with a reply mutated from the valid one (cut, length / count fields inflated or deflated, type replaced,
   id replaced, random bytes).  Per case the harness logs whether the call returned, panicked, what it returned, the bytes
   allocated, the mutated reply, and the aftermath (probe call, Wait, Close, goroutines).  Wire.tla decides which
   DATA / NAME / ATTRS / HANDLE replies are malformed: for those the call must not return a value. *)
EXTENDS Wire, Json
Trace == ndJsonDeserialize("trace.ndjson")
VARIABLES l, bad, c20
vars == <<l, bad, c20>>
Init == l = 1 /\ bad = "" /\ c20 = ""
Set(v, cond, msg) == IF cond /\ v = "" THEN msg ELSE v

Malformed(b) == LET d == DecFrame(b) IN d.class \in {"short", "zero", "long", "unknown"}

Step(e) ==
  CASE e.ev = "Reset" -> c20' = "" /\ UNCHANGED bad
    [] e.ev = "ReplyCase" ->
         /\ c20' = Set(c20, e.panic # "" \/ ~e.returned
                              \/ (e.strict /\ e.err = "" /\ Len(e.reply) >= 5 /\ e.reply[5] \in {102, 103, 104, 105} /\ Malformed(e.reply))
                              \/ e.alloc > 64 * Len(e.reply) + 300000
                              \/ ~(e.usable \/ e.failedclean),
                       IF e.panic # "" THEN "a client operation panicked on a server reply"
                       ELSE IF ~e.returned THEN "a client operation did not return"
                       ELSE IF e.alloc > 64 * Len(e.reply) + 300000 THEN "the client allocated memory out of proportion to the bytes received"
                       ELSE IF ~(e.usable \/ e.failedclean) THEN "afterwards the Client is neither usable nor failed cleanly"
                       ELSE "a malformed reply was turned into a value")
         /\ UNCHANGED bad
    [] e.ev \in {"Note", "PReq", "PResp", "PBad", "CcPut", "CcDeliver", "CcClosed"} -> UNCHANGED <<bad, c20>>
    [] OTHER -> bad' = "unknown event" /\ UNCHANGED c20
Next == l <= Len(Trace) /\ Step(Trace[l]) /\ l' = l + 1
Spec == Init /\ [][Next]_vars
Inv_WellFormed == bad = ""
Inv_C20 == c20 = ""
=============================================================================
