SPECIFICATION Spec
CONSTANTS MaxSegs = 4
INVARIANTS Export Inv_C10_AbsClean Inv_C10_Confined
CHECK_DEADLOCK FALSE
