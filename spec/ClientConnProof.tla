-------------------------- MODULE ClientConnProof --------------------------
(* Unbounded (any number of callers) TLAPS proof that the ids of requests in flight are pairwise distinct (C03, second
   clause), given the mechanism AtomicNextId.  TLC checks the same invariant exhaustively for 3 and 4 callers. *)
EXTENDS ClientConn, TLAPS

ASSUME Atomic == AtomicNextId = TRUE

IndInv ==
  /\ nextid \in Nat
  /\ id \in [Callers -> Nat]
  /\ pc \in [Callers -> STRING]
  /\ \A c \in Callers : id[c] <= nextid
  /\ \A c \in Callers : pc[c] # "readid"
  /\ \A a, b \in Callers : (a # b /\ id[a] # NoId /\ id[b] # NoId) => id[a] # id[b]

LEMMA InitInd == Init => IndInv
  BY DEF Init, IndInv, NoId

LEMMA StepInd == IndInv /\ [Next]_vars => IndInv'
<1> SUFFICES ASSUME IndInv, [Next]_vars PROVE IndInv'
  OBVIOUS
<1> USE DEF IndInv, NoId
<1>1. ASSUME NEW c \in Callers, NextIdAtomic(c) PROVE IndInv'
  <2> USE <1>1 DEF NextIdAtomic
  <2>1. nextid' = nextid + 1 /\ id' = [id EXCEPT ![c] = nextid + 1] /\ pc' = [pc EXCEPT ![c] = "gotid"]
    OBVIOUS
  <2>2. \A x \in Callers : id'[x] = IF x = c THEN nextid + 1 ELSE id[x]
    BY <2>1
  <2> QED BY <2>1, <2>2
<1>2. ASSUME NEW c \in Callers, NextIdRead(c) PROVE IndInv'
  BY <1>2, Atomic DEF NextIdRead
<1>3. ASSUME NEW c \in Callers, NextIdWrite(c) PROVE IndInv'
  BY <1>3 DEF NextIdWrite
<1>4. ASSUME NEW c \in Callers, PutChannel(c) PROVE IndInv'
  BY <1>4 DEF PutChannel
<1>4a. ASSUME NEW c \in Callers, PutCheck(c) PROVE IndInv'
  BY <1>4a DEF PutCheck
<1>4b. ASSUME NEW c \in Callers, PutRegister(c) PROVE IndInv'
  BY <1>4b DEF PutRegister
<1>5. ASSUME NEW c \in Callers, SendHdr(c) PROVE IndInv'
  BY <1>5 DEF SendHdr
<1>6. ASSUME NEW c \in Callers, SendPayload(c) PROVE IndInv'
  BY <1>6 DEF SendPayload
<1>7. ASSUME NEW c \in Callers, Unlock(c) PROVE IndInv'
  BY <1>7 DEF Unlock
<1>8. ASSUME NEW c \in Callers, SendFails(c) PROVE IndInv'
  BY <1>8 DEF SendFails
<1>9. ASSUME NEW c \in Callers, Wait(c) PROVE IndInv'
  BY <1>9 DEF Wait
<1>10. ASSUME NEW c \in Callers, Cancel(c) PROVE IndInv'
  BY <1>10 DEF Cancel
<1>11. ASSUME NEW i \in srvSeen, SrvReply(i) PROVE IndInv'
  BY <1>11 DEF SrvReply
<1>12. CASE RdFail \/ WrFail \/ RecvDeliver \/ RecvErr \/ RecvCloseWriter \/ BcastOne \/ BcastDone \/ Quiet
  BY <1>12 DEF RdFail, WrFail, RecvDeliver, RecvErr, RecvCloseWriter, BcastOne, BcastDone, Quiet, vars
<1>13. CASE UNCHANGED vars
  BY <1>13 DEF vars
<1> QED BY <1>1, <1>2, <1>3, <1>4, <1>4a, <1>4b, <1>5, <1>6, <1>7, <1>8, <1>9, <1>10, <1>11, <1>12, <1>13 DEF Next

THEOREM DistinctIds == Spec => []Inv_C03_DistinctIds
<1>1. IndInv => Inv_C03_DistinctIds
  BY DEF IndInv, Inv_C03_DistinctIds
<1> QED BY InitInd, StepInd, <1>1, PTL DEF Spec
=============================================================================
