----------------------------- MODULE ListingScen -----------------------------
(* Scenario export for C16: every terminated behaviour of Listing.tla prints (n, B, lister script). *)
EXTENDS Listing, Json
Export == pc = "done" => PrintT(<<"SCEN", ToJson([n |-> n, b |-> B, script |-> [i \in 1..Len(script) |-> [k |-> script[i][1], eof |-> script[i][2]]]])>>)
=============================================================================
