----------------------------- MODULE TraceFile -----------------------------
(* Trace validation for the File methods (C01, C12, C13): every call of an exported File method on the REAL
   client (against the os-backed Server, the RequestServer, or the scripted peer which can fail chunks and
   permute replies) is logged with its arguments, its result, the bytes it delivered, the File offset and
   the served file's content afterwards.  Each result is checked against FileProp.tla. *)
EXTENDS FileProp, Json

Trace == ndJsonDeserialize("trace.ndjson")

VARIABLES l, bad,
          content,   \* the served file (sequence of byte values)
          offset,    \* the File's implicit offset (as os.File would have it)
          closed,    \* Close has been called
          badb,      \* bad bytes: requests whose range contains one are failed by the peer
          call,      \* the pending FCall record
          closedH,   \* handles for which the peer has seen a CLOSE
          c01, c12, c13

vars == <<l, bad, content, offset, closed, badb, call, closedH, c01, c12, c13>>

NoCall == [api |-> "none"]
Init == l = 1 /\ bad = "" /\ content = <<>> /\ offset = 0 /\ closed = FALSE /\ badb = {} /\ call = NoCall /\ closedH = {}
        /\ c01 = "" /\ c12 = "" /\ c13 = ""

Set(v, cond, msg) == IF cond /\ v = "" THEN msg ELSE v
ToSet(s) == {s[i] : i \in 1..Len(s)}
Resize(c, n) == [i \in 1..n |-> IF i <= Len(c) THEN c[i] ELSE 0]

Ignored == {"Note", "PResp", "CcPut", "CcDeliver", "CcClosed", "Call", "Ret", "End", "Setup", "Handler", "ObjOpen", "ObjClose", "OpBegin", "OpEnd", "ObjTErr", "ObjFinal",
            "Req", "Resp", "ServeRet", "ConnClose", "PmFini", "PBad"}

(* result check of one call: returns [data |-> BOOLEAN (transfer clause), pos |-> expected offset afterwards] *)
Judge(c, r) ==
  IF closed THEN [data |-> r.err = "closed" /\ r.n = 0 /\ r.after = content, pos |-> offset, closedcase |-> TRUE]
  ELSE CASE c.api = "ReadAt"  -> [data |-> ReadOK(content, badb, c.off, c.len, r.n, r.err, r.data) /\ r.after = content, pos |-> offset, closedcase |-> FALSE]
         [] c.api = "Read"    -> [data |-> ReadOK(content, badb, offset, c.len, r.n, r.err, r.data) /\ r.after = content, pos |-> offset + r.n, closedcase |-> FALSE]
         [] c.api = "WriteTo" -> [data |-> ReadOK(content, badb, offset, Max2(0, Len(content) - offset), r.n, r.err, r.data) /\ r.after = content,
                                  pos |-> offset + r.n, closedcase |-> FALSE]
         [] c.api = "WriteAt" -> [data |-> WriteOK(content, badb, c.off, c.data, r.n, r.err, r.after), pos |-> offset, closedcase |-> FALSE]
         [] c.api = "Write"   -> [data |-> WriteOK(content, badb, offset, c.data, r.n, r.err, r.after), pos |-> offset + r.n, closedcase |-> FALSE]
         [] c.api = "ReadFrom" -> [data |-> ReadFromOK(content, badb, offset, c.data, r.n, r.consumed, r.err, r.after, r.pos),
                                   pos |-> IF badb = {} THEN offset + r.n ELSE r.pos, closedcase |-> FALSE]
         [] c.api = "Seek"    -> LET s == SeekResult(offset, Len(content), c.off, c.whence) IN
                                 [data |-> r.err = s.err /\ r.n = s.pos /\ r.after = content, pos |-> s.pos, closedcase |-> FALSE]
         [] c.api = "Stat"    -> [data |-> r.err = "" /\ r.n = Len(content) /\ r.after = content, pos |-> offset, closedcase |-> FALSE]
         [] c.api = "Truncate" -> [data |-> r.err = "" /\ r.after = Resize(content, c.len), pos |-> offset, closedcase |-> FALSE]
         \* the server may answer CLOSE with a failure status (c.srvfail): Close reports it, and the File is closed all the same
         [] c.api = "Close"   -> [data |-> r.err = (IF c.srvfail THEN "fail" ELSE "") /\ r.after = content, pos |-> offset, closedcase |-> FALSE]
         [] OTHER             -> [data |-> FALSE, pos |-> offset, closedcase |-> FALSE]

Step(e) ==
  CASE e.ev = "Reset" ->
         /\ content' = <<>> /\ offset' = 0 /\ closed' = FALSE /\ badb' = {} /\ call' = NoCall /\ closedH' = {}
         /\ c01' = "" /\ c12' = "" /\ c13' = "" /\ UNCHANGED bad
    [] e.ev \in Ignored -> UNCHANGED <<bad, content, offset, closed, badb, call, closedH, c01, c12, c13>>
    [] e.ev = "FInit" ->
         /\ content' = e.content /\ offset' = 0 /\ closed' = FALSE /\ badb' = ToSet(e.bad) /\ call' = NoCall
         /\ UNCHANGED <<bad, closedH, c01, c12, c13>>
    [] e.ev = "FBad" ->
         /\ badb' = ToSet(e.bad) /\ UNCHANGED <<bad, content, offset, closed, call, closedH, c01, c12, c13>>
    [] e.ev = "FCall" ->
         /\ call' = e /\ bad' = IF call.api # "none" THEN "call while another call is pending" ELSE bad
         /\ UNCHANGED <<content, offset, closed, badb, closedH, c01, c12, c13>>
    [] e.ev = "FRet" ->
         LET j == Judge(call, e) IN
         /\ bad' = IF call.api = "none" THEN "return without call" ELSE bad
         /\ c01' = Set(c01, badb = {} /\ ~j.closedcase /\ ~j.data, "transferred bytes / count / error differ from the file's bytes: " \o call.api)
         /\ c13' = Set(c13, badb # {} /\ ~j.closedcase /\ ~j.data, "partial failure: count, error or prefix wrong: " \o call.api)
         /\ c12' = Set(c12, (j.closedcase /\ ~j.data) \/ (e.pos >= 0 /\ e.pos # j.pos),
                       IF j.closedcase /\ ~j.data THEN "method on a closed File did not fail with os.ErrClosed: " \o call.api
                       ELSE "File offset after the call differs from os.File semantics: " \o call.api)
         \* resynchronise on what really happened, so that the rest of the sequence is still checked
         /\ content' = e.after
         /\ offset' = IF e.pos >= 0 THEN e.pos ELSE j.pos
         /\ closed' = (closed \/ call.api = "Close")
         /\ call' = NoCall
         /\ UNCHANGED <<badb, closedH>>
    [] e.ev = "FBig" ->
         \* a transfer with realistic packet sizes: payloads are too big to log, so the harness logs the count, the error, the
         \* File offset afterwards and whether the bytes moved equal the file's bytes (compared by hash)
         /\ c01' = Set(c01, e.err # "" \/ e.n # e.size \/ ~e.equal, "large transfer: count, error or bytes wrong: " \o e.api)
         /\ c12' = Set(c12, e.pos # e.wantpos, "File offset after a large transfer differs from os.File semantics: " \o e.api)
         /\ UNCHANGED <<bad, content, offset, closed, badb, call, closedH, c13>>
    [] e.ev = "PReq" ->
         \* wire side of C12: exactly one CLOSE per handle, nothing on a handle after its CLOSE
         /\ c12' = Set(c12, e.h # "" /\ e.h \in closedH,
                       IF e.typ = "CLOSE" THEN "more than one close request was sent for a handle" ELSE "a request carrying a closed handle was written to the wire after its close")
         /\ closedH' = IF e.typ = "CLOSE" THEN closedH \cup {e.h} ELSE closedH
         /\ UNCHANGED <<bad, content, offset, closed, badb, call, c01, c13>>
    [] OTHER -> bad' = "unknown event" /\ UNCHANGED <<content, offset, closed, badb, call, closedH, c01, c12, c13>>

Next == l <= Len(Trace) /\ Step(Trace[l]) /\ l' = l + 1
Spec == Init /\ [][Next]_vars

Inv_WellFormed == bad = ""
Inv_C01 == c01 = ""
Inv_C12 == c12 = ""
Inv_C13 == c13 = ""
=============================================================================
