SPECIFICATION Spec
CONSTANTS
  NW = 2
  CapPkt = 1
  CapRW = 1
  CapCh = 1
  MaxReq = 4
  Handles = {"h1"}
  Kinds = {"R","C","M","X"}
  Barrier = TRUE
  DrainOnFini = TRUE
  ReleaseAfterSend = FALSE
  TagNextOrder = TRUE
  StopOnMalformed = TRUE
  UseAlloc = TRUE
INVARIANTS Inv_C18_Exclusive
CHECK_DEADLOCK TRUE
