SPECIFICATION Spec
INVARIANTS Inv_WellFormed Inv_C02_OwnPayload Inv_C18_Exclusive Inv_C18_ReleaseAfterSend Inv_C18_QuiescentEmpty Inv_C18_SameBytes
CHECK_DEADLOCK FALSE
