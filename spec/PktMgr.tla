------------------------------- MODULE PktMgr -------------------------------
(* Implementation-shaped model of the server side request pipeline:

     Serve loop (server.go:Serve / request-server.go:serveLoop)      -> actions Recv*, Eof
     dispatcher goroutine  (packet-manager.go workerChan)             -> actions D*
     NW read/write workers + 1 command worker (sftpServerWorker /
        packetWorker, handlePacket ... readyPacket)                   -> actions W*, C*
     controller goroutine  (packet-manager.go controller /
        maybeSendPackets)                                             -> actions Ctl*
     allocator (allocator.go GetPage / ReleasePages)                  -> inside Recv / WTake / CtlSend

   One action per critical section / channel operation of the Go code.  Every
   protecting mechanism named in the property anchors is a boolean CONSTANT, so that the
   ablation runs (mechanism = FALSE) show (a) the invariant is not vacuous and (b) which
   schedule a broken implementation would follow.

   Request kinds:  "R" read/write on a handle (rw pool), "C" close of a handle (command
   worker, after the barrier), "M" any other request (command worker), "X" malformed packet. *)
EXTENDS Integers, Sequences, FiniteSets, TLC, ServerProp

CONSTANTS NW,          \* number of read/write workers            (code: 8)
          CapPkt,      \* capacity of pktChan                     (code: 8)
          CapRW,       \* capacity of rwChan                      (code: 8)
          CapCh,       \* capacity of requests / responses chans  (code: 8)
          MaxReq,      \* bound on the length of the request program
          Handles,     \* handles the program may name
          Kinds,       \* subset of {"R","C","M","X"} the program may use
          Barrier,          \* dispatcher waits for working=0 before registering a CLOSE (packet-manager.go:136)
          DrainOnFini,      \* controller empties its channels before it exits
          ReleaseAfterSend, \* pages of a request are released after its response was written
          TagNextOrder,     \* the receive page is tagged with the order id the packet is going to get
          StopOnMalformed,  \* the Serve loop stops at a malformed packet instead of dispatching it
          UseAlloc          \* allocator enabled

VARIABLES reqs,      \* history: sequence of [k, h] received, order id = index
          eof,       \* the Serve loop has left its receive loop
          pktChan,   \* sequence of order ids
          dsp,       \* dispatcher: [pc, o]
          rwChan,    \* sequence of order ids
          rwClosed,  \* rwChan / cmdChan closed
          wk,        \* rw workers: [w -> [pc, o]]      pc in {"idle","run","ready"}
          cw,        \* command worker: [pc, o]
          working,   \* sync.WaitGroup counter
          reqCh, respCh,      \* controller input channels (sequences of order ids)
          incoming, outgoing, \* controller's sorted lists (sets of order ids)
          ctl,       \* controller pc: "sel" | "send" | "done"
          fini,      \* fini channel closed
          resps,     \* history: sequence of order ids written to the connection
          begun, ended,       \* history: orders whose handler began / ended
          acted,     \* history: orders whose handler ran although the packet was malformed (C07)
          avail,     \* allocator: set of available pages
          used,      \* allocator: order id -> set of pages
          holder,    \* history: page -> set of orders that logically own it (until their response is out)
          npages     \* number of pages ever allocated

vars == <<reqs, eof, pktChan, dsp, rwChan, rwClosed, wk, cw, working, reqCh, respCh, incoming, outgoing,
          ctl, fini, resps, begun, ended, acted, avail, used, holder, npages>>

Workers == 1..NW
Kind(o) == reqs[o].k
Hnd(o)  == reqs[o].h
Min(S)  == CHOOSE x \in S : \A y \in S : x <= y

(* -------- allocator ------------------------------------------------------ *)

(* GetPage(order): reuse an available page or make a new one; record it under `order`. *)
GetPage(order, logical) ==
  LET p == IF avail # {} THEN Min(avail) ELSE npages + 1 IN
  /\ avail'  = avail \ {p}
  /\ npages' = IF avail # {} THEN npages ELSE npages + 1
  /\ used'   = [used EXCEPT ![order] = @ \cup {p}]
  /\ holder' = IF p \in DOMAIN holder THEN [holder EXCEPT ![p] = @ \cup {logical}]
                                     ELSE holder @@ (p :> {logical})

NoAlloc == UNCHANGED <<avail, used, holder, npages>>

(* ReleasePages(order) *)
Released(order, av, us) == <<av \cup us[order], [us EXCEPT ![order] = {}]>>

Init ==
  /\ reqs = <<>> /\ eof = FALSE /\ pktChan = <<>>
  /\ dsp = [pc |-> "idle", o |-> 0]
  /\ rwChan = <<>> /\ rwClosed = FALSE
  /\ wk = [w \in Workers |-> [pc |-> "idle", o |-> 0]]
  /\ cw = [pc |-> "idle", o |-> 0]
  /\ working = 0
  /\ reqCh = <<>> /\ respCh = <<>> /\ incoming = {} /\ outgoing = {}
  /\ ctl = "sel" /\ fini = FALSE
  /\ resps = <<>> /\ begun = {} /\ ended = {} /\ acted = {}
  /\ avail = {} /\ used = [o \in 0..(MaxReq+1) |-> {}] /\ holder = <<>> /\ npages = 0

(* -------- Serve loop ------------------------------------------------------- *)

(* recvPacket + makePacket + `pktChan <- newOrderedRequest(pkt)`.
   With the allocator the receive buffer is a page tagged with getNextOrderID(). *)
RecvOk(k, h) ==
  /\ ~eof /\ Len(reqs) < MaxReq /\ Len(pktChan) < CapPkt
  /\ k \in Kinds \ {"X"}
  /\ LET o == Len(reqs) + 1 IN
     /\ reqs' = Append(reqs, [k |-> k, h |-> h])
     /\ pktChan' = Append(pktChan, o)
     /\ IF UseAlloc THEN GetPage(IF TagNextOrder THEN o ELSE o - 1, o) ELSE NoAlloc
  /\ UNCHANGED <<eof, dsp, rwChan, rwClosed, wk, cw, working, reqCh, respCh, incoming, outgoing, ctl, fini,
                 resps, begun, ended, acted>>

(* a packet that does not decode: the loop closes the connection and leaves (StopOnMalformed),
   or - ablation, and the behaviour of Server.Serve before the fix - dispatches it anyway *)
RecvMalformed ==
  /\ ~eof /\ Len(reqs) < MaxReq /\ Len(pktChan) < CapPkt
  /\ "X" \in Kinds
  /\ LET o == Len(reqs) + 1 IN
     /\ reqs' = Append(reqs, [k |-> "X", h |-> CHOOSE h \in Handles : TRUE])
     /\ IF StopOnMalformed
          THEN /\ eof' = TRUE /\ pktChan' = pktChan
          ELSE /\ eof' = eof  /\ pktChan' = Append(pktChan, o)
     /\ IF UseAlloc THEN GetPage(IF TagNextOrder THEN o ELSE o - 1, o) ELSE NoAlloc
  /\ UNCHANGED <<dsp, rwChan, rwClosed, wk, cw, working, reqCh, respCh, incoming, outgoing, ctl, fini,
                 resps, begun, ended, acted>>

Eof ==
  /\ ~eof /\ eof' = TRUE
  /\ UNCHANGED <<reqs, pktChan, dsp, rwChan, rwClosed, wk, cw, working, reqCh, respCh, incoming, outgoing, ctl,
                 fini, resps, begun, ended, acted, avail, used, holder, npages>>

(* -------- dispatcher goroutine ---------------------------------------------- *)

DTake ==
  /\ dsp.pc = "idle" /\ pktChan # <<>>
  /\ LET o == Head(pktChan) IN
     dsp' = [pc |-> IF Kind(o) = "C" /\ Barrier THEN "wait" ELSE "reg", o |-> o]
  /\ pktChan' = Tail(pktChan)
  /\ UNCHANGED <<reqs, eof, rwChan, rwClosed, wk, cw, working, reqCh, respCh, incoming, outgoing, ctl, fini,
                 resps, begun, ended, acted, avail, used, holder, npages>>

(* s.working.Wait() before a CLOSE is registered *)
DWait ==
  /\ dsp.pc = "wait" /\ working = 0
  /\ dsp' = [dsp EXCEPT !.pc = "reg"]
  /\ UNCHANGED <<reqs, eof, pktChan, rwChan, rwClosed, wk, cw, working, reqCh, respCh, incoming, outgoing, ctl,
                 fini, resps, begun, ended, acted, avail, used, holder, npages>>

(* incomingPacket: working.Add(1); requests <- pkt *)
DReg ==
  /\ dsp.pc = "reg" /\ Len(reqCh) < CapCh
  /\ working' = working + 1
  /\ reqCh' = Append(reqCh, dsp.o)
  /\ dsp' = [dsp EXCEPT !.pc = "fwd"]
  /\ UNCHANGED <<reqs, eof, pktChan, rwChan, rwClosed, wk, cw, respCh, incoming, outgoing, ctl, fini,
                 resps, begun, ended, acted, avail, used, holder, npages>>

(* rwChan <- pkt *)
DFwdRW ==
  /\ dsp.pc = "fwd" /\ Kind(dsp.o) = "R" /\ Len(rwChan) < CapRW
  /\ rwChan' = Append(rwChan, dsp.o)
  /\ dsp' = [pc |-> "idle", o |-> 0]
  /\ UNCHANGED <<reqs, eof, pktChan, rwClosed, wk, cw, working, reqCh, respCh, incoming, outgoing, ctl, fini,
                 resps, begun, ended, acted, avail, used, holder, npages>>

(* cmdChan <- pkt : unbuffered, a rendezvous with the idle command worker *)
DFwdCmd ==
  /\ dsp.pc = "fwd" /\ Kind(dsp.o) # "R" /\ cw.pc = "idle"
  /\ cw' = [pc |-> "run", o |-> dsp.o]
  /\ begun' = begun \cup {dsp.o}
  /\ acted' = IF Kind(dsp.o) = "X" THEN acted \cup {dsp.o} ELSE acted
  /\ dsp' = [pc |-> "idle", o |-> 0]
  /\ UNCHANGED <<reqs, eof, pktChan, rwChan, rwClosed, wk, working, reqCh, respCh, incoming, outgoing, ctl, fini,
                 resps, ended, avail, used, holder, npages>>

(* pktChan closed and drained: close(rwChan); close(cmdChan); then s.close() *)
DClose ==
  /\ dsp.pc = "idle" /\ pktChan = <<>> /\ eof
  /\ rwClosed' = TRUE
  /\ dsp' = [pc |-> "closing", o |-> 0]
  /\ UNCHANGED <<reqs, eof, pktChan, rwChan, wk, cw, working, reqCh, respCh, incoming, outgoing, ctl, fini,
                 resps, begun, ended, acted, avail, used, holder, npages>>

(* s.close(): working.Wait(); close(fini) *)
DFini ==
  /\ dsp.pc = "closing" /\ working = 0
  /\ fini' = TRUE
  /\ dsp' = [pc |-> "done", o |-> 0]
  /\ UNCHANGED <<reqs, eof, pktChan, rwChan, rwClosed, wk, cw, working, reqCh, respCh, incoming, outgoing, ctl,
                 resps, begun, ended, acted, avail, used, holder, npages>>

(* -------- workers ------------------------------------------------------------ *)

(* an rw worker takes a packet; a READ takes its data page (getDataSlice) under the same order id *)
WTake(w) ==
  /\ wk[w].pc = "idle" /\ rwChan # <<>>
  /\ LET o == Head(rwChan) IN
     /\ wk' = [wk EXCEPT ![w] = [pc |-> "run", o |-> o]]
     /\ begun' = begun \cup {o}
     /\ IF UseAlloc THEN GetPage(o, o) ELSE NoAlloc
  /\ rwChan' = Tail(rwChan)
  /\ UNCHANGED <<reqs, eof, pktChan, dsp, rwClosed, cw, working, reqCh, respCh, incoming, outgoing, ctl, fini,
                 resps, ended, acted>>

(* the handler call returns and the response packet is built *)
WEnd(w) ==
  /\ wk[w].pc = "run"
  /\ wk' = [wk EXCEPT ![w].pc = "ready"]
  /\ ended' = ended \cup {wk[w].o}
  /\ UNCHANGED <<reqs, eof, pktChan, dsp, rwChan, rwClosed, cw, working, reqCh, respCh, incoming, outgoing, ctl,
                 fini, resps, begun, acted, avail, used, holder, npages>>

(* readyPacket: responses <- pkt; working.Done().   Ablation ~ReleaseAfterSend: the pages are
   handed back as soon as the response is queued, i.e. before it has been written. *)
WReady(w) ==
  /\ wk[w].pc = "ready" /\ Len(respCh) < CapCh
  /\ respCh' = Append(respCh, wk[w].o)
  /\ working' = working - 1
  /\ wk' = [wk EXCEPT ![w] = [pc |-> "idle", o |-> 0]]
  /\ IF UseAlloc /\ ~ReleaseAfterSend
       THEN /\ avail' = Released(wk[w].o, avail, used)[1]
            /\ used'  = Released(wk[w].o, avail, used)[2]
            /\ UNCHANGED <<holder, npages>>
       ELSE NoAlloc
  /\ UNCHANGED <<reqs, eof, pktChan, dsp, rwChan, rwClosed, cw, reqCh, incoming, outgoing, ctl, fini,
                 resps, begun, ended, acted>>

CEnd ==
  /\ cw.pc = "run"
  /\ cw' = [cw EXCEPT !.pc = "ready"]
  /\ ended' = ended \cup {cw.o}
  /\ UNCHANGED <<reqs, eof, pktChan, dsp, rwChan, rwClosed, wk, working, reqCh, respCh, incoming, outgoing, ctl,
                 fini, resps, begun, acted, avail, used, holder, npages>>

CReady ==
  /\ cw.pc = "ready" /\ Len(respCh) < CapCh
  /\ respCh' = Append(respCh, cw.o)
  /\ working' = working - 1
  /\ cw' = [pc |-> "idle", o |-> 0]
  /\ IF UseAlloc /\ ~ReleaseAfterSend
       THEN /\ avail' = Released(cw.o, avail, used)[1]
            /\ used'  = Released(cw.o, avail, used)[2]
            /\ UNCHANGED <<holder, npages>>
       ELSE NoAlloc
  /\ UNCHANGED <<reqs, eof, pktChan, dsp, rwChan, rwClosed, wk, reqCh, incoming, outgoing, ctl, fini,
                 resps, begun, ended, acted>>

(* -------- controller goroutine ------------------------------------------------ *)

CtlReq ==
  /\ ctl = "sel" /\ reqCh # <<>>
  /\ incoming' = incoming \cup {Head(reqCh)}
  /\ reqCh' = Tail(reqCh)
  /\ ctl' = "send"
  /\ UNCHANGED <<reqs, eof, pktChan, dsp, rwChan, rwClosed, wk, cw, working, respCh, outgoing, fini,
                 resps, begun, ended, acted, avail, used, holder, npages>>

CtlResp ==
  /\ ctl = "sel" /\ respCh # <<>>
  /\ outgoing' = outgoing \cup {Head(respCh)}
  /\ respCh' = Tail(respCh)
  /\ ctl' = "send"
  /\ UNCHANGED <<reqs, eof, pktChan, dsp, rwChan, rwClosed, wk, cw, working, reqCh, incoming, fini,
                 resps, begun, ended, acted, avail, used, holder, npages>>

HeadsMatch == incoming # {} /\ outgoing # {} /\ Min(incoming) = Min(outgoing)

(* maybeSendPackets, one iteration: write the response, release the pages, pop both heads *)
CtlSend ==
  /\ ctl = "send" /\ HeadsMatch
  /\ LET o == Min(outgoing) IN
     /\ resps' = Append(resps, o)
     /\ incoming' = incoming \ {o}
     /\ outgoing' = outgoing \ {o}
     /\ holder' = [p \in DOMAIN holder |-> holder[p] \ {o}]
     /\ IF UseAlloc /\ ReleaseAfterSend
          THEN /\ avail' = Released(o, avail, used)[1]
               /\ used'  = Released(o, avail, used)[2]
          ELSE UNCHANGED <<avail, used>>
  /\ UNCHANGED <<reqs, eof, pktChan, dsp, rwChan, rwClosed, wk, cw, working, reqCh, respCh, ctl, fini,
                 begun, ended, acted, npages>>

CtlSendDone ==
  /\ ctl = "send" /\ ~HeadsMatch
  /\ ctl' = "sel"
  /\ UNCHANGED <<reqs, eof, pktChan, dsp, rwChan, rwClosed, wk, cw, working, reqCh, respCh, incoming, outgoing,
                 fini, resps, begun, ended, acted, avail, used, holder, npages>>

(* `case <-s.fini`: Go's select picks any ready case, so without draining the controller may leave
   while requests/responses are still buffered *)
CtlFini ==
  /\ ctl = "sel" /\ fini
  /\ DrainOnFini => (reqCh = <<>> /\ respCh = <<>>)
  /\ ctl' = "done"
  /\ UNCHANGED <<reqs, eof, pktChan, dsp, rwChan, rwClosed, wk, cw, working, reqCh, respCh, incoming, outgoing,
                 fini, resps, begun, ended, acted, avail, used, holder, npages>>

Terminated == ctl = "done" /\ dsp.pc = "done"

Done == Terminated /\ UNCHANGED vars

Next ==
  \/ \E k \in Kinds \ {"X"}, h \in Handles : RecvOk(k, h)
  \/ RecvMalformed \/ Eof
  \/ DTake \/ DWait \/ DReg \/ DFwdRW \/ DFwdCmd \/ DClose \/ DFini
  \/ \E w \in Workers : WTake(w) \/ WEnd(w) \/ WReady(w)
  \/ CEnd \/ CReady
  \/ CtlReq \/ CtlResp \/ CtlSend \/ CtlSendDone \/ CtlFini
  \/ Done

Spec == Init /\ [][Next]_vars /\ WF_vars(Next)

(* -------- observable projection and the properties ------------------------------ *)

(* well-formed requests, in arrival order, as [id, typ]; the model uses the order id as id *)
WF == SelectSeq([i \in 1..Len(reqs) |-> [id |-> i, typ |-> reqs[i].k, k |-> reqs[i].k]], LAMBDA r : r.k # "X")
RespRecs == [i \in 1..Len(resps) |-> [id |-> resps[i], typ |-> "any"]]

TypeOK ==
  /\ working \in 0..(MaxReq + 1)
  /\ Len(pktChan) <= CapPkt /\ Len(rwChan) <= CapRW /\ Len(reqCh) <= CapCh /\ Len(respCh) <= CapCh

(* C02: responses leave in arrival order, one per request, with the request's id *)
Inv_C02_Order == C02_Order(WF, RespRecs)

(* C02 (no response lost): when everything has terminated every well-formed request was answered *)
Inv_C02_AllAnswered == Terminated => C02_AllAnswered(WF, RespRecs)

(* C14: when the handler of a CLOSE begins, every earlier read/write on that handle has ended *)
Inv_C14_NoRWAfterClose ==
  \A c \in begun : Kind(c) = "C" =>
     \A o \in 1..(c-1) : (Kind(o) = "R" /\ Hnd(o) = Hnd(c)) => o \in ended

(* C18: a page is never logically owned by two requests whose responses are not yet written *)
Inv_C18_Exclusive == C18_Exclusive(holder)

(* C18: once all responses are out no page is marked in use *)
Inv_C18_QuiescentEmpty ==
  (Terminated /\ Len(resps) = Len(WF)) => \A o \in 1..Len(reqs) : Kind(o) # "X" => used[o] = {}

(* C07: a malformed packet is never acted upon *)
Inv_C07_NoActOnMalformed == acted = {}

(* liveness: the pipeline always terminates after EOF (no hang, C02/C07) *)
Live_Terminates == eof ~> Terminated

=============================================================================
