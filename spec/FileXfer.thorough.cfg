SPECIFICATION Spec
CONSTANTS
  MaxSize = 7
  MaxLen = 8
  Ps = {2, 3}
  Concs = {1, 2, 3}
  MaxBad = 2
  Modes = {"read", "write", "writeTo"}
  ReduceLowest = TRUE
  OffsetOnData = TRUE
INVARIANTS Inv_C13_Result Inv_C12_WriteToOffset
CHECK_DEADLOCK TRUE
