------------------------------ MODULE ModesEnum ------------------------------
(* The conversion theorems of Modes.tla, checked by TLC over the FULL domains: all 28672 modes and all 65536 wire words. *)
EXTENDS Modes
VARIABLE c
Init == c \in [k : {"mode"}, m : Modes] \cup [k : {"word"}, w : 0..65535]
Next == UNCHANGED c
Spec == Init /\ [][Next]_c
Inv_C17_RoundTripMode == c.k = "mode" => FromWire(ToWire(c.m)) = c.m /\ ToWire(c.m) \in 0..65535
Inv_C17_RoundTripWord == (c.k = "word" /\ FromWire(c.w).typ # "other") => ToWire(FromWire(c.w)) = c.w
Inv_C17_ChmodPerm     == c.k = "mode" => ChmodPerm(c.m) = ToWire(c.m) % 4096
=============================================================================
