SPECIFICATION Spec
CONSTANTS
  MaxOps = 6
  MaxOpen = 3
  MonotonicHandles = TRUE
  CloseDeletes = TRUE
  DropFailedOpen = FALSE
  SweepOnExit = TRUE
  TErrOnlyOpen = TRUE
INVARIANTS Inv_C11_StaleNotValid
CHECK_DEADLOCK TRUE
