SPECIFICATION Spec
CONSTANTS
  MaxSize = 4
  MaxLen = 5
  Ps = {2}
  Concs = {1, 2}
  MaxBad = 1
  Modes = {"read", "write", "writeTo"}
  ReduceLowest = TRUE
  OffsetOnData = TRUE
PROPERTIES Live_Returns
CHECK_DEADLOCK TRUE
