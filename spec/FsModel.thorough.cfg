SPECIFICATION Spec
CONSTANTS
  Names = {"a", "b", "c"}
  MaxNodes = 4
  MaxSteps = 1000000
INVARIANTS Inv_TreeOK
VIEW View
CHECK_DEADLOCK FALSE
