SPECIFICATION Spec
INVARIANTS Inv_WellFormed Inv_C05
CHECK_DEADLOCK FALSE
