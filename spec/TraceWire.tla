------------------------------ MODULE TraceWire ------------------------------
(* Trace validation for C06.
     WireCase  one packet enumerated by WireEnum.tla replayed into both Go codecs (outcome strings, "" = agrees with the
               reference bytes / fields, "n/a" = the codec has no such operation)
     WireEnc   a seeded random packet encoded by both Go codecs, logged with its fields: TLC computes Enc(fields) *)
EXTENDS Wire, Json
Trace == ndJsonDeserialize("trace.ndjson")
VARIABLES l, bad, c06
vars == <<l, bad, c06>>
Init == l = 1 /\ bad = "" /\ c06 = ""
Set(v, cond, msg) == IF cond /\ v = "" THEN msg ELSE v
ToSet(s) == {s[i] : i \in 1..Len(s)}
Good(s) == s \in {"", "n/a"}

(* JSON gives the attribute flag set as a list *)
FixAttrs(a) == [a EXCEPT !.fl = ToSet(a.fl)]
FixField(kind, v) == IF kind = "attrs" THEN FixAttrs(v) ELSE v
FixPacket(t, f) == [t |-> t, f |-> [i \in 1..Len(f) |-> FixField(Schema(t)[i], f[i])]]

Step(e) ==
  CASE e.ev = "Reset" -> c06' = "" /\ UNCHANGED bad
    [] e.ev = "WireCase" ->
         /\ c06' = Set(c06, ~(Good(e.pkgenc) /\ Good(e.pkgdec) /\ Good(e.fxenc) /\ Good(e.fxdec)),
                       IF ~Good(e.pkgenc) THEN "the wire codec does not produce the reference encoding"
                       ELSE IF ~Good(e.pkgdec) THEN "the wire codec does not decode the reference encoding to the same packet"
                       ELSE IF ~Good(e.fxenc) THEN "the filexfer codec does not produce the reference encoding"
                       ELSE "the filexfer codec does not decode the reference encoding to the same packet")
         /\ UNCHANGED bad
    [] e.ev = "WireEnc" ->
         LET ref == Enc(FixPacket(e.t, e.f)) IN
         /\ c06' = Set(c06, e.err # "" \/ e.b1 # ref \/ e.b2 # ref \/ N32(e.b1) # Len(e.b1) - 4,
                       IF e.err # "" THEN "encoding failed"
                       ELSE IF e.b1 # e.b2 THEN "the two codecs produce different bytes for the same packet"
                       ELSE "the encoding differs from the SFTP v3 layout")
         /\ UNCHANGED bad
    [] e.ev \in {"Note"} -> UNCHANGED <<bad, c06>>
    [] OTHER -> bad' = "unknown event" /\ UNCHANGED c06
Next == l <= Len(Trace) /\ Step(Trace[l]) /\ l' = l + 1
Spec == Init /\ [][Next]_vars
Inv_WellFormed == bad = ""
Inv_C06 == c06 = ""
=============================================================================
