------------------------------- MODULE FsModel -------------------------------
(* C05: name-space and metadata operations through Client + os-backed Server behave like package os.

   The model is the package-os (Linux) semantics of the operations over a small tree:
     names   {"a","b","c"}, depth <= 2 below the served root
     nodes   "none" | "file" | "dir" | "la" "lb" "lc" (a symbolic link whose target text is the sibling name a / b / c;
             it may dangle, point at a file, a directory, another link, or itself)
   One action per Client operation; each yields an outcome category {ok, notexist, permission, other} and the next
   tree.  TLC explores every reachable tree x operation instance within the bound on the number of nodes, checks the
   structural invariant of the tree, and - in simulation mode - exports operation sequences with the model's prediction
   for every step (spec/FsModelScen.cfg).  The real arbiter of the model is package os itself (see TraceFs.tla). *)
EXTENDS Integers, Sequences, FiniteSets, TLC

CONSTANTS Names, MaxNodes, MaxSteps

Paths == {<<x>> : x \in Names} \cup {<<x, y>> : x \in Names, y \in Names}
Links == {"la", "lb", "lc"}
Kinds == {"none", "file", "dir"} \cup Links
LinkTo(k) == CASE k = "la" -> "a" [] k = "lb" -> "b" [] k = "lc" -> "c"

VARIABLES tree, nsteps, sched
vars == <<tree, nsteps, sched>>

Parent(p) == SubSeq(p, 1, Len(p) - 1)
IsDirPath(t, p) == p = <<>> \/ t[p] = "dir"
Children(t, p) == {q \in Paths : Len(q) = Len(p) + 1 /\ Parent(q) = p /\ t[q] # "none"}
NodeCount(t) == Cardinality({p \in Paths : t[p] # "none"})

(* ---- path resolution with symbolic links (fuel bounds link chains: more than 3 hops is ELOOP) ----
   Result: [st |-> "ok", at |-> real path]   the path resolves to an existing node (not a link if follow)
           [st |-> "missing", at |-> path]   everything but the last component exists (at = where it would be created)
           [st |-> "notexist"] / [st |-> "notdir"] / [st |-> "loop"] / [st |-> "toodeep"] (outside the modelled universe) *)
RECURSIVE Res(_, _, _, _, _)
Res(t, dir, rest, follow, fuel) ==
  IF fuel = 0 THEN [st |-> "loop", at |-> <<>>]
  ELSE IF rest = <<>> THEN [st |-> "ok", at |-> dir]
  ELSE LET q == Append(dir, Head(rest))  last == Len(rest) = 1 IN
       IF Len(q) > 2 THEN [st |-> "toodeep", at |-> <<>>]
       ELSE LET k == t[q] IN
            IF k = "none" THEN (IF last THEN [st |-> "missing", at |-> q] ELSE [st |-> "notexist", at |-> <<>>])
            ELSE IF k \in Links /\ (~last \/ follow) THEN Res(t, dir, <<LinkTo(k)>> \o Tail(rest), follow, fuel - 1)
            ELSE IF last THEN [st |-> "ok", at |-> q]
            ELSE IF k = "dir" THEN Res(t, q, Tail(rest), follow, fuel)
            ELSE [st |-> "notdir", at |-> <<>>]

Resolve(t, p, follow) == Res(t, <<>>, p, follow, 4)
ErrCat(r) == IF r.st = "toodeep" THEN "toodeep" ELSE IF r.st \in {"missing", "notexist"} THEN "notexist" ELSE "other"     \* ENOTDIR, ELOOP -> other failure

Set1(t, p, k) == [t EXCEPT ![p] = k]
RemoveSubtree(t, p) == [q \in Paths |-> IF q = p \/ (Len(q) > Len(p) /\ SubSeq(q, 1, Len(p)) = p) THEN "none" ELSE t[q]]
MoveSubtree(t, p, q) ==   \* rename of a real node p to the (absent or just removed) place q, with its children
  [x \in Paths |-> IF x = q THEN t[p]
                   ELSE IF Len(x) > Len(q) /\ SubSeq(x, 1, Len(q)) = q THEN
                        (IF Len(p) = 1 /\ Len(q) = 1 THEN t[<<p[1], x[2]>>] ELSE "none")
                   ELSE IF x = p \/ (Len(x) > Len(p) /\ SubSeq(x, 1, Len(p)) = p) THEN "none"
                   ELSE t[x]]

(* ---- operations: each returns [cat, tree] ---- *)
Out(c, t) == [cat |-> c, tree |-> t]

Mkdir(t, p) ==
  LET r == Resolve(t, p, FALSE) IN
  IF r.st = "ok" THEN Out("other", t)                       \* EEXIST (also for a dangling link: mkdir does not follow)
  ELSE IF r.st = "missing" THEN Out("ok", Set1(t, r.at, "dir"))
  ELSE Out(ErrCat(r), t)

(* os.Remove: unlink a file or link, or rmdir an empty directory *)
Remove(t, p) ==
  LET r == Resolve(t, p, FALSE) IN
  IF r.st # "ok" THEN Out(ErrCat(r), t)
  ELSE IF t[r.at] = "dir" /\ Children(t, r.at) # {} THEN Out("other", t)   \* ENOTEMPTY
  ELSE Out("ok", Set1(t, r.at, "none"))

(* os.Rename (rename(2)): the parents of both names are resolved first, then the names themselves *)
ParentErr(t, p) ==
  LET r == Resolve(t, Parent(p), TRUE) IN
  IF r.st = "ok" THEN (IF IsDirPath(t, r.at) THEN "" ELSE "other") ELSE (IF r.st = "missing" THEN "notexist" ELSE ErrCat(r))

Rename(t, p, q) ==
  LET rp == Resolve(t, p, FALSE)  rq == Resolve(t, q, FALSE)  pe == ParentErr(t, p)  qe == ParentErr(t, q) IN
  \* Go's os.Rename first Lstats the new name; if it is a directory, the error of Lstat(old) wins, otherwise EEXIST
  IF rq.st = "ok" /\ t[rq.at] = "dir" THEN (IF rp.st # "ok" THEN Out(IF pe # "" THEN pe ELSE ErrCat(rp), t) ELSE Out("other", t))
  ELSE IF pe # "" THEN Out(pe, t)
  ELSE IF qe # "" THEN Out(qe, t)
  ELSE IF rp.st # "ok" THEN Out(ErrCat(rp), t)
  ELSE IF rq.st \notin {"ok", "missing"} THEN Out(ErrCat(rq), t)
  ELSE IF rq.at = rp.at THEN (IF t[rp.at] = "dir" /\ Children(t, rp.at) # {} THEN Out("other", t) ELSE Out("ok", t))
  ELSE IF Len(rq.at) > Len(rp.at) /\ SubSeq(rq.at, 1, Len(rp.at)) = rp.at THEN Out("other", t)   \* into itself: EINVAL
  ELSE IF t[rp.at] = "dir" /\ Len(rq.at) = 2 /\ Children(t, rp.at) # {} THEN Out("toodeep", t)     \* would leave the modelled universe
  ELSE IF rq.st = "ok" /\ t[rp.at] = "dir" /\ t[rq.at] # "dir" THEN Out("other", t)                \* ENOTDIR
  ELSE IF rq.st = "ok" /\ t[rp.at] # "dir" /\ t[rq.at] = "dir" THEN Out("other", t)                \* EISDIR
  ELSE IF rq.st = "ok" /\ t[rq.at] = "dir" /\ Children(t, rq.at) # {} THEN Out("other", t)         \* ENOTEMPTY
  ELSE Out("ok", MoveSubtree(RemoveSubtree(t, rq.at), rp.at, rq.at))

(* os.Symlink(text, q): q must not exist *)
Symlink(t, k, q) ==
  LET r == Resolve(t, q, FALSE) IN
  IF r.st = "ok" THEN Out("other", t)
  ELSE IF r.st = "missing" THEN Out("ok", Set1(t, r.at, k))
  ELSE Out(ErrCat(r), t)

(* os.Link(p, q): p is not followed by linkat(2) without AT_SYMLINK_FOLLOW... Go's os.Link uses link(2), which on Linux does not follow *)
Link(t, p, q) ==
  \* linkat(2): the old name is looked up first, then the new name is prepared (ENOENT / EEXIST), and only then a directory is refused (EPERM)
  LET rp == Resolve(t, p, FALSE)  rq == Resolve(t, q, FALSE) IN
  IF rp.st # "ok" THEN Out(ErrCat(rp), t)
  ELSE IF rq.st = "ok" THEN Out("other", t)
  ELSE IF rq.st # "missing" THEN Out(ErrCat(rq), t)
  ELSE IF t[rp.at] = "dir" THEN Out("permission", t)                                               \* EPERM
  ELSE Out("ok", Set1(t, rq.at, t[rp.at]))                                                         \* kind of the new name (content identity is not modelled)

StatLike(t, p, follow) == LET r == Resolve(t, p, follow) IN IF r.st = "ok" THEN Out("ok", t) ELSE Out(ErrCat(r), t)
StatKind(t, p, follow) == LET r == Resolve(t, p, follow) IN IF r.st = "ok" THEN (IF r.at = <<>> THEN "dir" ELSE t[r.at]) ELSE "none"

ReadLink(t, p) ==
  LET r == Resolve(t, p, FALSE) IN
  IF r.st # "ok" THEN Out(ErrCat(r), t) ELSE IF t[r.at] \in Links THEN Out("ok", t) ELSE Out("other", t)   \* EINVAL

(* Create = OpenFile(O_RDWR|O_CREATE|O_TRUNC): follows links, creates the target of a dangling link *)
Create(t, p) ==
  LET r == Resolve(t, p, TRUE) IN
  IF r.st = "ok" THEN (IF r.at = <<>> \/ t[r.at] = "dir" THEN Out("other", t) ELSE Out("ok", t))  \* EISDIR
  ELSE IF r.st = "missing" THEN Out("ok", Set1(t, r.at, "file"))
  ELSE Out(ErrCat(r), t)

(* OpenFile with the flag combinations Create does not cover (k names the combination):
     "r" O_RDONLY   "wt" O_WRONLY|O_TRUNC   "rwt" O_RDWR|O_TRUNC   "wa" O_WRONLY|O_APPEND      follow links, never create
     "wc" O_WRONLY|O_CREATE   "rwc" O_RDWR|O_CREATE   "wct" O_WRONLY|O_CREATE|O_TRUNC          follow links, create the target
     "wcx" O_WRONLY|O_CREATE|O_EXCL                                                            the last component is NOT followed
   (file sizes are not part of the modelled tree; truncation is compared between package os and sftp by the replay) *)
OpenKinds == {"r", "wt", "rwt", "wa", "wc", "rwc", "wct", "wcx"}
OpenFile(t, k, p) ==
  IF k = "wcx" THEN
    LET r == Resolve(t, p, FALSE) IN
    IF r.st = "ok" THEN Out("other", t)                                        \* EEXIST, also for a dangling link
    ELSE IF r.st = "missing" THEN Out("ok", Set1(t, r.at, "file"))
    ELSE Out(ErrCat(r), t)
  ELSE
    LET r == Resolve(t, p, TRUE) IN
    IF r.st = "ok" THEN (IF k # "r" /\ (r.at = <<>> \/ t[r.at] = "dir") THEN Out("other", t) ELSE Out("ok", t))    \* EISDIR
    ELSE IF r.st = "missing" THEN (IF k \in {"wc", "rwc", "wct"} THEN Out("ok", Set1(t, r.at, "file")) ELSE Out("notexist", t))
    ELSE Out(ErrCat(r), t)

Truncate(t, p) ==
  LET r == Resolve(t, p, TRUE) IN
  IF r.st # "ok" THEN Out(ErrCat(r), t) ELSE IF r.at = <<>> \/ t[r.at] = "dir" THEN Out("other", t) ELSE Out("ok", t)

ReadDir(t, p) ==
  LET r == Resolve(t, p, TRUE) IN
  IF r.st # "ok" THEN Out(ErrCat(r), t) ELSE IF IsDirPath(t, r.at) THEN Out("ok", t) ELSE Out("other", t)      \* ENOTDIR

OpNames1 == {"Mkdir", "Remove", "RemoveDirectory", "Stat", "Lstat", "ReadLink", "Create", "Truncate", "Chmod", "ReadDir"}
Apply1(op, t, p) ==
  CASE op = "Mkdir" -> Mkdir(t, p)
    [] op \in {"Remove", "RemoveDirectory"} -> Remove(t, p)
    [] op = "Stat" -> StatLike(t, p, TRUE)
    [] op = "Lstat" -> StatLike(t, p, FALSE)
    [] op = "ReadLink" -> ReadLink(t, p)
    [] op = "Create" -> Create(t, p)
    [] op = "Truncate" -> Truncate(t, p)
    [] op = "Chmod" -> StatLike(t, p, TRUE)
    [] op = "ReadDir" -> ReadDir(t, p)
OpNames2 == {"Rename", "PosixRename", "Link"}
Apply2(op, t, p, q) == IF op = "Link" THEN Link(t, p, q) ELSE Rename(t, p, q)

TreeOK(t) == \A p \in Paths : (Len(p) = 2 /\ t[p] # "none") => t[Parent(p)] = "dir"

Init == tree = [p \in Paths |-> "none"] /\ nsteps = 0 /\ sched = <<>>

TreeRec(t) == {<<p, t[p]>> : p \in {q \in Paths : t[q] # "none"}}

Step(op, p, q, k, o) ==
  /\ nsteps < MaxSteps
  /\ o.cat # "toodeep" /\ NodeCount(o.tree) <= MaxNodes
  /\ tree' = o.tree /\ nsteps' = nsteps + 1
  /\ sched' = Append(sched, [op |-> op, p |-> p, q |-> q, k |-> k, cat |-> o.cat])

Next ==
  \/ \E op \in OpNames1, p \in Paths : Step(op, p, <<>>, "", Apply1(op, tree, p))
  \/ \E op \in OpNames2, p \in Paths, q \in Paths : Step(op, p, q, "", Apply2(op, tree, p, q))
  \/ \E k \in Links, q \in Paths : Step("Symlink", <<>>, q, k, Symlink(tree, k, q))
  \/ \E k \in OpenKinds, p \in Paths : Step("OpenFile", p, <<>>, k, OpenFile(tree, k, p))

Spec == Init /\ [][Next]_vars

Inv_TreeOK == TreeOK(tree)
View == tree
=============================================================================
