SPECIFICATION Spec
INVARIANTS Inv_WellFormed Inv_C20
CHECK_DEADLOCK FALSE
