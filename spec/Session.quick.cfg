SPECIFICATION Spec
CONSTANTS
  MaxOps = 6
  MaxOpen = 3
  MonotonicHandles = TRUE
  CloseDeletes = TRUE
  DropFailedOpen = TRUE
  SweepOnExit = TRUE
  TErrOnlyOpen = TRUE
INVARIANTS Inv_C11_Unique Inv_C11_StaleNotValid Inv_C11_ClosedOnce Inv_C11_NeverTwice Inv_C11_TErrExactlyOpen Inv_C11_CtxCancelled
CHECK_DEADLOCK TRUE
