SPECIFICATION Spec
CONSTANTS
  MaxOps = 6
  MaxOpen = 3
  MonotonicHandles = TRUE
  CloseDeletes = FALSE
  DropFailedOpen = TRUE
  SweepOnExit = TRUE
  TErrOnlyOpen = TRUE
INVARIANTS Inv_C11_NeverTwice
CHECK_DEADLOCK TRUE
