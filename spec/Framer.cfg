SPECIFICATION Spec
CONSTANTS
  MaxAvail = 12
  Declared = {0, 1, 2, 5, 6, 7, 9}
  Limit = 6
  CheckBeforeBody = TRUE
INVARIANTS Inv_C08_RefuseBeforeBody Inv_C08_NoShortDelivery Inv_C08_BoundedRead
PROPERTIES Live_C08_Total
CHECK_DEADLOCK TRUE
