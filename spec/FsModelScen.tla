----------------------------- MODULE FsModelScen -----------------------------
(* Scenario export for C05: random walks of FsModel.tla, each step with the model's predicted outcome category. *)
EXTENDS FsModel, Json
Export == nsteps = MaxSteps => PrintT(<<"SCEN", ToJson(sched)>>)
=============================================================================
