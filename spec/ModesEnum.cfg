SPECIFICATION Spec
INVARIANTS Inv_C17_RoundTripMode Inv_C17_RoundTripWord Inv_C17_ChmodPerm
CHECK_DEADLOCK FALSE
