SPECIFICATION Spec
CONSTANTS
  MaxOps = 6
  MaxOpen = 3
  MonotonicHandles = TRUE
  CloseDeletes = TRUE
  DropFailedOpen = TRUE
  SweepOnExit = TRUE
  TErrOnlyOpen = FALSE
INVARIANTS Inv_C11_TErrExactlyOpen
CHECK_DEADLOCK TRUE
