SPECIFICATION Spec
CONSTANTS
  Callers = {"a","b","c"}
  TwoWrites = {"a","b"}
  AtomicNextId = TRUE
  SendLock = TRUE
  DeleteOnGet = TRUE
  HijackOnBroadcast = TRUE
  RefuseAfterClosed = TRUE
  SendErrDelivered = TRUE
  AllowRdFail = TRUE
  AllowWrFail = TRUE
  AllowCancel = FALSE
  ChanCap1 = TRUE
  AtomicPutCheck = TRUE
  CloseStopsWrites = TRUE
  SendErrToRegistered = TRUE
  KeepSlotOnCancel = TRUE
INVARIANTS Inv_C03_OwnReply Inv_C03_DistinctIds Inv_C03_Framing Inv_C04_NotifiedOnce
PROPERTIES Live_AllReturn
CHECK_DEADLOCK TRUE
