------------------------------ MODULE FileXfer ------------------------------
(* Implementation-shaped model of the multi-packet transfers of client.go:

     "read"    File.readAt concurrent path            client.go:1198-1356   (slicer, map workers, firstErr reduce)
     "write"   File.writeAtConcurrent                 client.go:1662-1781   (same shape; errors at the chunk offset)
     "writeTo" File.WriteTo concurrent path           client.go:1397-1590   (slicer hands out cur/next channels; the
                                                                             reducer consumes the chunks strictly in order)

   The slicer dispatches chunk k (the request is on the wire), then offers the work item on an unbuffered
   channel (or sees `cancel`).  The peer answers requests in flight in ANY order.  A bad byte makes every request
   whose range contains it fail with the error of the lowest bad byte in its range (FileProp.tla).
   All parameters are chosen in Init, so one TLC run covers every combination within the bounds. *)
EXTENDS Integers, Sequences, FiniteSets, TLC

CONSTANTS MaxSize, MaxLen, Ps, Concs, MaxBad, Modes,
          ReduceLowest,     \* the reducer keeps the error with the lowest offset (`off <= firstErr.off`), not the first to arrive
          OffsetOnData      \* WriteTo moves the File offset only for packets that carry data (fixed in c52b73a)

VARIABLES mode, size, off0, len0, P, conc, bad,        \* parameters (constant during a behaviour)
          next,       \* next chunk index the slicer dispatches
          spc,        \* slicer: "dispatch" | "offer" | "done"
          inflight,   \* chunk indices on the wire, not yet answered
          reply,      \* chunk -> [n, err] as answered ("none" err = not yet)
          wk,         \* worker -> [pc, c]  pc: "idle" | "wait" | "report" | "hand"
          firstErr,   \* [off, err]
          cancelled,
          got,        \* chunk -> number of bytes received / stored for it
          rk,         \* writeTo reducer: index of the chunk it waits for
          handed,     \* writeTo: chunk -> [n, err] result handed to the reducer chain ("none" = not yet)
          written,    \* writeTo: bytes handed to the io.Writer
          foff,       \* writeTo: the File offset
          res         \* final result [done, n, err]

vars == <<mode, size, off0, len0, P, conc, bad, next, spc, inflight, reply, wk, firstErr, cancelled, got, rk, handed, written, foff, res>>

None == -9   \* "no value yet" (errors are integers: -1 no error, -2 EOF, p >= 0 the bad byte reported)
Min2(a, b) == IF a < b THEN a ELSE b
Max2(a, b) == IF a > b THEN a ELSE b
MinSet(S) == CHOOSE x \in S : \A y \in S : x <= y
Inf == 1000000

Workers == 1..conc
ChunkOff(k) == off0 + k * P
(* number of chunks the slicer can produce: read/write cut the buffer; writeTo goes on until cancelled (bounded here) *)
NChunks == IF mode = "writeTo" THEN ((Max2(0, size - off0) + P - 1) \div P) + conc + 1
           ELSE (len0 + P - 1) \div P
ChunkLen(k) == IF mode = "writeTo" THEN P ELSE Min2(P, off0 + len0 - ChunkOff(k))
FirstBad(o, n) == LET S == {p \in bad : p >= o /\ p < o + n} IN IF S = {} THEN -1 ELSE MinSet(S)

(* what the peer answers for chunk k *)
Answer(k) ==
  LET o == ChunkOff(k)  l == ChunkLen(k) IN
  IF mode = "write"
    THEN LET f == FirstBad(o, l) IN IF f >= 0 THEN [n |-> 0, err |-> f] ELSE [n |-> l, err |-> -1]
    ELSE IF o >= size THEN [n |-> 0, err |-> -2]                                   \* -2: EOF status
         ELSE LET a == Min2(l, size - o)  f == FirstBad(o, a) IN
              IF f >= 0 THEN [n |-> 0, err |-> f] ELSE [n |-> a, err |-> -1]       \* -1: no error

Init ==
  /\ mode \in Modes /\ size \in 0..MaxSize /\ off0 \in 0..MaxSize /\ len0 \in 0..MaxLen /\ P \in Ps /\ conc \in Concs
  /\ bad \in {b \in SUBSET (0..(MaxSize + MaxLen)) : Cardinality(b) <= MaxBad}
  /\ (mode = "writeTo" => len0 = 0 /\ size > P)          \* the concurrent WriteTo path is taken for files larger than a packet
  /\ (mode # "writeTo" => len0 > P)                      \* the concurrent read/write paths are taken for buffers larger than a packet
  /\ (mode # "write" => \A p \in bad : p < size)
  /\ next = 0 /\ spc = "dispatch" /\ inflight = {}
  /\ reply = [k \in 0..20 |-> [n |-> 0, err |-> None]]
  /\ wk = [w \in 1..3 |-> [pc |-> "idle", c |-> 0]]
  /\ firstErr = [off |-> Inf, err |-> None] /\ cancelled = FALSE
  /\ got = [k \in 0..20 |-> 0]
  /\ rk = 0 /\ handed = [k \in 0..20 |-> [n |-> 0, err |-> None]] /\ written = 0 /\ foff = off0
  /\ res = [done |-> FALSE, n |-> 0, err |-> None]

(* ---- slicer *)
SDispatch ==
  /\ spc = "dispatch" /\ ~res.done
  /\ IF next < NChunks
       THEN inflight' = inflight \cup {next} /\ spc' = "offer"
       ELSE spc' = "done" /\ UNCHANGED inflight
  /\ UNCHANGED <<mode, size, off0, len0, P, conc, bad, next, reply, wk, firstErr, cancelled, got, rk, handed, written, foff, res>>

SOffer(w) ==
  /\ spc = "offer" /\ w \in Workers /\ wk[w].pc = "idle"
  /\ wk' = [wk EXCEPT ![w] = [pc |-> "wait", c |-> next]]
  /\ next' = next + 1 /\ spc' = "dispatch"
  /\ UNCHANGED <<mode, size, off0, len0, P, conc, bad, inflight, reply, firstErr, cancelled, got, rk, handed, written, foff, res>>

SCancel ==
  /\ spc = "offer" /\ cancelled
  /\ spc' = "done"
  /\ UNCHANGED <<mode, size, off0, len0, P, conc, bad, next, inflight, reply, wk, firstErr, cancelled, got, rk, handed, written, foff, res>>

(* ---- peer: any request in flight may be answered next *)
PeerReply(k) ==
  /\ k \in inflight
  /\ reply' = [reply EXCEPT ![k] = Answer(k)]
  /\ inflight' = inflight \ {k}
  /\ got' = IF mode = "write" /\ Answer(k).err = -1 THEN [got EXCEPT ![k] = Answer(k).n] ELSE got
  /\ UNCHANGED <<mode, size, off0, len0, P, conc, bad, next, spc, wk, firstErr, cancelled, rk, handed, written, foff, res>>

(* ---- map workers *)
WRecv(w) ==
  /\ w \in Workers /\ wk[w].pc = "wait" /\ reply[wk[w].c].err # None
  /\ LET k == wk[w].c  r == reply[k] IN
     IF mode = "writeTo"
       THEN /\ wk' = [wk EXCEPT ![w].pc = "hand"]
            /\ UNCHANGED got
       ELSE /\ got' = IF mode = "read" THEN [got EXCEPT ![k] = r.n] ELSE got
            \* read: a short DATA reply means EOF at that offset (client.go:1307)
            /\ wk' = IF r.err # -1 \/ (mode = "read" /\ r.n < ChunkLen(k))
                       THEN [wk EXCEPT ![w].pc = "report"] ELSE [wk EXCEPT ![w] = [pc |-> "idle", c |-> 0]]
  /\ UNCHANGED <<mode, size, off0, len0, P, conc, bad, next, spc, inflight, reply, firstErr, cancelled, rk, handed, written, foff, res>>

(* errCh <- rErr{off, err}: a rendezvous with the reducer *)
WReport(w) ==
  /\ w \in Workers /\ wk[w].pc = "report" /\ mode # "writeTo"
  /\ LET k == wk[w].c  r == reply[k]
         e == IF r.err = -1 THEN -2 ELSE r.err
         rec == [off |-> ChunkOff(k) + (IF mode = "read" /\ r.err = -1 THEN r.n ELSE 0), err |-> e] IN
     firstErr' = IF ReduceLowest THEN (IF rec.off <= firstErr.off THEN rec ELSE firstErr)
                 ELSE (IF firstErr.err = None THEN rec ELSE firstErr)
  /\ cancelled' = TRUE
  /\ wk' = [wk EXCEPT ![w] = [pc |-> "idle", c |-> 0]]
  /\ UNCHANGED <<mode, size, off0, len0, P, conc, bad, next, spc, inflight, reply, got, rk, handed, written, foff, res>>

(* writeTo: `readWork.cur <- writeWork` (or cancel) *)
WHand(w) ==
  /\ w \in Workers /\ wk[w].pc = "hand" /\ mode = "writeTo"
  /\ (rk = wk[w].c \/ res.done)                      \* the reducer is receiving on this chunk's channel, or cancel is closed
  /\ handed' = IF rk = wk[w].c /\ ~res.done THEN [handed EXCEPT ![wk[w].c] = reply[wk[w].c]] ELSE handed
  /\ wk' = [wk EXCEPT ![w] = [pc |-> "idle", c |-> 0]]
  /\ UNCHANGED <<mode, size, off0, len0, P, conc, bad, next, spc, inflight, reply, firstErr, cancelled, got, rk, written, foff, res>>

(* writeTo reducer: one packet, strictly in chunk order *)
Reduce ==
  /\ mode = "writeTo" /\ ~res.done /\ handed[rk].err # None
  /\ LET r == handed[rk] IN
     /\ foff' = IF OffsetOnData /\ r.n = 0 THEN foff ELSE ChunkOff(rk) + r.n
     /\ written' = written + r.n
     /\ got' = [got EXCEPT ![rk] = r.n]
     /\ IF r.err # -1 \/ r.n < P    \* status (EOF / error); a short DATA packet is followed by the EOF status of the next chunk
          THEN IF r.err # -1
                 THEN res' = [done |-> TRUE, n |-> written + r.n, err |-> r.err] /\ cancelled' = TRUE /\ UNCHANGED rk
                 ELSE rk' = rk + 1 /\ UNCHANGED <<res, cancelled>>
          ELSE rk' = rk + 1 /\ UNCHANGED <<res, cancelled>>
  /\ UNCHANGED <<mode, size, off0, len0, P, conc, bad, next, spc, inflight, reply, wk, firstErr, handed>>

(* read / write: wg.Wait(); close(errCh); the reducer returns *)
Finish ==
  /\ mode # "writeTo" /\ ~res.done /\ spc = "done" /\ \A w \in Workers : wk[w].pc = "idle"
  /\ res' = IF firstErr.err # None THEN [done |-> TRUE, n |-> firstErr.off - off0, err |-> firstErr.err]
                                   ELSE [done |-> TRUE, n |-> len0, err |-> -1]
  /\ UNCHANGED <<mode, size, off0, len0, P, conc, bad, next, spc, inflight, reply, wk, firstErr, cancelled, got, rk, handed, written, foff>>

Done == res.done /\ UNCHANGED vars

Next ==
  \/ SDispatch \/ SCancel \/ Reduce \/ Finish \/ Done
  \/ \E w \in 1..3 : SOffer(w) \/ WRecv(w) \/ WReport(w) \/ WHand(w)
  \/ \E k \in 0..20 : PeerReply(k)

Spec == Init /\ [][Next]_vars /\ WF_vars(Next)

(* ------------------------------------------------------------------ properties (FileProp formulas on the abstract result) *)

Avail == IF mode = "write" THEN len0 ELSE Max2(0, Min2(IF mode = "writeTo" THEN size - off0 ELSE len0, size - off0))
Want  == IF mode = "writeTo" THEN Avail ELSE len0
F     == FirstBad(off0, Avail)

(* every byte of [off0, off0 + n) has really been received / stored: the chunks covering it are complete *)
PrefixMoved(n) ==
  \A k \in 0..20 : (k < NChunks /\ ChunkOff(k) < off0 + n) => got[k] >= Min2(ChunkLen(k), off0 + n - ChunkOff(k))

Inv_C13_Result ==
  res.done =>
    /\ res.n >= 0 /\ res.n <= Max2(Avail, 0) /\ PrefixMoved(res.n)
    /\ IF F >= 0 THEN res.err = F /\ res.n <= F - off0                              \* lowest failing offset, prefix only
       ELSE /\ res.n = Avail                                                       \* C01: everything transferred
            /\ res.err = (IF mode # "write" /\ Avail < Want THEN -2 ELSE (IF mode = "writeTo" THEN -2 ELSE -1))

(* C12: WriteTo advances the offset by the bytes transferred *)
Inv_C12_WriteToOffset == (res.done /\ mode = "writeTo") => foff = off0 + res.n

Live_Returns == <>res.done
=============================================================================
