SPECIFICATION Spec
INVARIANTS Inv_WellFormed Inv_C17
CHECK_DEADLOCK FALSE
