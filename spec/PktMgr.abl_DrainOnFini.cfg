SPECIFICATION Spec
CONSTANTS
  NW = 2
  CapPkt = 1
  CapRW = 1
  CapCh = 1
  MaxReq = 4
  Handles = {"h1"}
  Kinds = {"R","C","M","X"}
  Barrier = TRUE
  DrainOnFini = FALSE
  ReleaseAfterSend = TRUE
  TagNextOrder = TRUE
  StopOnMalformed = TRUE
  UseAlloc = TRUE
INVARIANTS Inv_C02_AllAnswered
CHECK_DEADLOCK TRUE
