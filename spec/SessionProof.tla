--------------------------- MODULE SessionProof ---------------------------
(* Unbounded (any MaxOps, any MaxOpen) proof with TLAPS that handles issued by a session are pairwise distinct
   (C11, first clause), given the mechanism MonotonicHandles.  TLC checks the same invariant exhaustively for small
   constants (Session.quick.cfg); this module removes the bound. *)
EXTENDS Session, TLAPS

ASSUME Mono == MonotonicHandles = TRUE
ASSUME ConstOK == MaxOps \in Nat /\ MaxOpen \in Nat

IndInv ==
  /\ counter \in Nat
  /\ issued \in Seq(Nat)
  /\ \A i \in 1..Len(issued) : issued[i] >= 1 /\ issued[i] <= counter
  /\ \A i, j \in 1..Len(issued) : i # j => issued[i] # issued[j]

LEMMA InitInd == Init => IndInv
  BY DEF Init, IndInv

LEMMA StepInd == IndInv /\ [Next]_vars => IndInv'
<1> SUFFICES ASSUME IndInv, [Next]_vars PROVE IndInv'
  OBVIOUS
<1>1. CASE OpenOk
  <2> USE <1>1, Mono DEF OpenOk, OpenOkH, NewHandle, IndInv
  <2>1. counter' = counter + 1 /\ issued' = Append(issued, counter + 1)
    OBVIOUS
  <2>2. Len(issued') = Len(issued) + 1 /\ issued' \in Seq(Nat)
    BY <2>1
  <2>3. \A i \in 1..Len(issued') : issued'[i] = IF i = Len(issued) + 1 THEN counter + 1 ELSE issued[i]
    BY <2>1
  <2> QED BY <2>1, <2>2, <2>3
<1>2. CASE OpenFail(TRUE)
  BY <1>2 DEF OpenFail, IndInv
<1>3. CASE OpenFail(FALSE)
  BY <1>3 DEF OpenFail, IndInv
<1>4. CASE \E h \in Handle : Use(h) \/ Close(h, FALSE) \/ Close(h, TRUE)
  BY <1>4 DEF Use, Close, IndInv
<1>5. CASE ConnEnd
  BY <1>5 DEF ConnEnd, IndInv
<1>6. CASE Sweep
  BY <1>6 DEF Sweep, IndInv
<1>7. CASE Done
  BY <1>7 DEF Done, vars, IndInv
<1>8. CASE UNCHANGED vars
  BY <1>8 DEF vars, IndInv
<1> QED BY <1>1, <1>2, <1>3, <1>4, <1>5, <1>6, <1>7, <1>8 DEF Next

THEOREM UniqueHandles == Spec => []Inv_C11_Unique
<1>1. IndInv => Inv_C11_Unique
  BY DEF IndInv, Inv_C11_Unique
<1> QED BY InitInd, StepInd, <1>1, PTL DEF Spec
=============================================================================
