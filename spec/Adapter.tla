------------------------------- MODULE Adapter -------------------------------
(* C10: the request server is a faithful adapter in both directions.

   PATHS     Clean(start, abs, segs): the handler sees an absolute, lexically clean path relative to the configured start
             directory (request-server.go:345-355 cleanPathWithBase).  Written as a stack machine over path segments.
   DISPATCH  which handler is invoked (exactly once) with which Method for every request type, depending on which optional
             interfaces the handlers implement (request.go:187-212, 303-325, 642-670; request-server.go:222-328).
   ERRORS    what a handler's error looks like at the client (statusFromError server.go:612-657 -> normaliseError
             client.go:2231-2249): SFTP codes as given; not-exist / permission / EOF of os, io, syscall (bare or inside
             os's own wrappers) as such; anything else a failure carrying its text. *)
EXTENDS Integers, Sequences, FiniteSets, TLC, Json

(* ---------------------------------------------------------------- PATHS *)
Segs == {"", ".", "..", "a", "b.", "X"}          \* "X" stands for a non-UTF-8 segment (0xFF 0xFE) in the replay
SeqsUpTo(S, n) == UNION {[1..k -> S] : k \in 0..n}

RECURSIVE Walk(_, _)
Walk(stack, segs) ==
  IF segs = <<>> THEN stack
  ELSE LET s == Head(segs) IN
       Walk(IF s = "" \/ s = "." THEN stack
            ELSE IF s = ".." THEN (IF stack = <<>> THEN stack ELSE SubSeq(stack, 1, Len(stack) - 1))
            ELSE Append(stack, s),
            Tail(segs))

(* the cleaned path as a sequence of segments: an absolute request path ignores the start directory *)
Clean(start, abs, segs) == Walk(IF abs THEN <<>> ELSE start, segs)

RECURSIVE Join(_)
Join(segs) == IF segs = <<>> THEN "" ELSE "/" \o Head(segs) \o Join(Tail(segs))
PathString(segs) == IF segs = <<>> THEN "/" ELSE Join(segs)

(* properties of the function itself, checked by TLC over the whole enumeration *)
AbsClean(res) == \A i \in 1..Len(res) : res[i] \notin {"", ".", ".."}

(* the path string is built as  [/] seg1/seg2/.../segn [/] : it is absolute if it has the leading slash, or if its first
   segment is empty, or if it consists of the trailing slash alone *)
EffAbs(abs, trail, segs) == abs \/ (Len(segs) >= 2 /\ segs[1] = "") \/ (Len(segs) = 1 /\ segs[1] = "" /\ trail) \/ (segs = <<>> /\ trail)

(* the start directory as the segments it denotes; the replay writes it in four string forms ("/s/t", "s/t" or "",
   "/./s/./t/", "../s/t"): a start directory is cleaned against "/" like any other path *)
Starts == {<<>>, <<"s">>, <<"s", "t">>}
PathCases(n) == {[kind |-> "path", start |-> st, abs |-> ab, trail |-> tr, segs |-> sg, want |-> PathString(Clean(st, EffAbs(ab, tr, sg), sg))] :
                   st \in Starts, ab \in BOOLEAN, tr \in BOOLEAN, sg \in SeqsUpTo(Segs, n)}

(* ---------------------------------------------------------------- DISPATCH
   optional interfaces: o OpenFileWriter, p PosixRenameFileCmder, v StatVFSFileCmder, l LstatFileLister,
                        r RealPathFileLister, k ReadlinkFileLister                                        *)
ReqKinds == {"OPEN-R", "OPEN-W", "OPEN-RW", "OPEN-RWC", "OPEN-A", "OPEN-NONE", "OPENDIR", "STAT", "LSTAT", "FSTAT", "READLINK", "REALPATH",
             "SETSTAT", "FSETSTAT", "RENAME", "POSIX-RENAME", "RMDIR", "MKDIR", "REMOVE", "SYMLINK", "HARDLINK", "STATVFS",
             "READ", "WRITE", "READDIR",
             \* a request that does not fit the kind of its handle: no handler and no object may be touched
             "READ-on-put", "WRITE-on-get", "READ-on-dir", "WRITE-on-dir", "READDIR-on-get", "READDIR-on-put"}

(* [h |-> handler entry point, m |-> Request.Method] ; h = "none" : no handler is invoked *)
Expect(req, has) ==
  CASE req = "OPEN-R"     -> [h |-> "Fileread", m |-> "Get"]
    [] req \in {"OPEN-W", "OPEN-A"} -> [h |-> "Filewrite", m |-> "Put"]
    [] req \in {"OPEN-RW", "OPEN-RWC"} -> IF "o" \in has THEN [h |-> "OpenFile", m |-> "Open"] ELSE [h |-> "Filewrite", m |-> "Put"]
    [] req = "OPEN-NONE"  -> [h |-> "none", m |-> ""]
    [] req = "OPENDIR"    -> [h |-> "Filelist", m |-> "List"]
    [] req \in {"STAT", "FSTAT"} -> [h |-> "Filelist", m |-> "Stat"]
    [] req = "LSTAT"      -> IF "l" \in has THEN [h |-> "Lstat", m |-> "Lstat"] ELSE [h |-> "Filelist", m |-> "Stat"]
    [] req = "READLINK"   -> IF "k" \in has THEN [h |-> "Readlink", m |-> "Readlink"] ELSE [h |-> "Filelist", m |-> "Readlink"]
    [] req = "REALPATH"   -> IF "r" \in has THEN [h |-> "RealPath", m |-> "RealPath"] ELSE [h |-> "none", m |-> ""]
    [] req \in {"SETSTAT", "FSETSTAT"} -> [h |-> "Filecmd", m |-> "Setstat"]
    [] req = "RENAME"     -> [h |-> "Filecmd", m |-> "Rename"]
    [] req = "POSIX-RENAME" -> IF "p" \in has THEN [h |-> "PosixRename", m |-> "PosixRename"] ELSE [h |-> "Filecmd", m |-> "Rename"]
    [] req = "RMDIR"      -> [h |-> "Filecmd", m |-> "Rmdir"]
    [] req = "MKDIR"      -> [h |-> "Filecmd", m |-> "Mkdir"]
    [] req = "REMOVE"     -> [h |-> "Filecmd", m |-> "Remove"]
    [] req = "SYMLINK"    -> [h |-> "Filecmd", m |-> "Symlink"]
    [] req = "HARDLINK"   -> [h |-> "Filecmd", m |-> "Link"]
    [] req = "STATVFS"    -> IF "v" \in has THEN [h |-> "StatVFS", m |-> "StatVFS"] ELSE [h |-> "none", m |-> ""]
    [] req \in {"READ", "WRITE", "READDIR"} -> [h |-> "object", m |-> ""]    \* served by the object of the handle (ReadAt / WriteAt / ListAt)
    [] req \in {"READ-on-put", "WRITE-on-get", "READ-on-dir", "WRITE-on-dir", "READDIR-on-get", "READDIR-on-put"} -> [h |-> "mismatch", m |-> ""]

Opts == {"o", "p", "v", "l", "r", "k"}
DispatchCases == {[kind |-> "dispatch", req |-> r, has |-> hs, h |-> Expect(r, hs).h, m |-> Expect(r, hs).m] : r \in ReqKinds, hs \in SUBSET Opts}

(* ---------------------------------------------------------------- ERRORS
   what the handler returns -> what the client must see: "nil" | "eof" | "notexist" | "permission" | "code:<n>" | "failure" *)
Errs == {"nil", "fx:0", "fx:1", "fx:2", "fx:3", "fx:4", "fx:5", "fx:6", "fx:7", "fx:8",
         "os.ErrNotExist", "os.ErrPermission", "os.ErrExist", "io.EOF", "io.ErrUnexpectedEOF",
         "ENOENT", "EACCES", "EPERM", "EBADF", "EINVAL", "custom"}
Wraps == {"bare", "PathError", "LinkError", "SyscallError"}

Underlying(e) ==
  CASE e \in {"os.ErrNotExist", "ENOENT"} -> "notexist"
    [] e \in {"os.ErrPermission", "EACCES", "EPERM"} -> "permission"
    [] e = "io.EOF" -> "eof"
    [] OTHER -> "failure"

ClientSees(e, w) ==
  CASE e = "nil" -> "nil"
    [] e \in {"fx:0"} /\ w = "bare" -> "nil"
    [] e = "fx:1" /\ w = "bare" -> "eof"
    [] e = "fx:2" /\ w = "bare" -> "notexist"
    [] e = "fx:3" /\ w = "bare" -> "permission"
    [] e = "fx:4" /\ w = "bare" -> "failure"
    [] e \in {"fx:5", "fx:6", "fx:7", "fx:8"} /\ w = "bare" -> "code:" \o SubSeq(e, 4, 4)
    [] OTHER -> Underlying(e)

(* a wrapped SFTP code is outside the property's wording (codes "as given" are bare); io.EOF inside os's wrappers is end-of-file *)
ErrCases == {[kind |-> "error", err |-> e, wrap |-> w, want |-> ClientSees(e, w)] :
               e \in Errs, w \in Wraps} \ {c \in [kind : {"error"}, err : Errs, wrap : Wraps, want : STRING] : FALSE}
=============================================================================
