---------------------------- MODULE TraceClient ----------------------------
(* Trace validation for the client connection (C03, C04): the harness runs a real Client against the
   scripted peer.  Events:
     Call / Ret            a goroutine starts / finishes one client operation (Ret carries what it got and
                           what the peer generates for exactly that request, and - for C04 - whether the
                           reply had been received completely before the failure)
     PReq / PResp / PBad   the peer parsed a request from the client->server stream / wrote a reply /
                           could not parse the stream
     CcPut / CcDeliver     hook events of conn.go: a result channel is registered / a result is sent to it
     End                   after Close: hung calls, Wait/Close returned, goroutines left               *)
EXTENDS Integers, Sequences, FiniteSets, TLC, Json

Trace == ndJsonDeserialize("trace.ndjson")

VARIABLES l, bad,
          open,        \* calls started and not yet returned: set of <<g, n>>
          outstanding, \* ids the peer has received and not yet answered
          regs,        \* channel -> [sid, n]: request it is registered for, results sent to it for that request
          c03,         \* "" or description of a C03 violation
          c04          \* "" or description of a C04 violation

vars == <<l, bad, open, outstanding, regs, c03, c04>>

Init == l = 1 /\ bad = "" /\ open = {} /\ outstanding = {} /\ regs = <<>> /\ c03 = "" /\ c04 = ""

Get(f, k, d) == IF k \in DOMAIN f THEN f[k] ELSE d
Upd(f, k, v) == [x \in DOMAIN f \cup {k} |-> IF x = k THEN v ELSE f[x]]
Set(v, cond, msg) == IF cond /\ v = "" THEN msg ELSE v
Has(e, f) == f \in DOMAIN e

Ignored == {"Note", "CcClosed", "Cut", "Setup"}

Step(e) ==
  CASE e.ev = "Reset" ->
         /\ open' = {} /\ outstanding' = {} /\ regs' = <<>> /\ c03' = "" /\ c04' = "" /\ UNCHANGED bad
    [] e.ev \in Ignored -> UNCHANGED <<bad, open, outstanding, regs, c03, c04>>
    [] e.ev = "Call" ->
         /\ open' = open \cup {<<e.g, e.n>>}
         /\ UNCHANGED <<bad, outstanding, regs, c03, c04>>
    [] e.ev = "Ret" ->
         /\ open' = open \ {<<e.g, e.n>>}
         /\ bad' = IF <<e.g, e.n>> \notin open THEN "return without call" ELSE bad
         \* C03: a call that returns a value returns the value generated for its own request
         /\ c03' = Set(c03, (e.err = "" /\ e.got # e.want) \/ (Has(e, "noerr") /\ e.noerr /\ e.err # ""),
                       IF e.err = "" THEN "a call returned a result that does not belong to its own request"
                       ELSE "a call failed although the connection is intact and the peer answers every request")
         \* C04: after a connection loss: replies received completely are kept, everything else fails
         /\ c04' = Set(c04, Has(e, "mustok") /\ ((e.mustok /\ e.err # "") \/ (e.musterr /\ e.err = "")),
                       IF Has(e, "mustok") /\ e.mustok THEN "a call whose reply had been received completely returned an error"
                       ELSE "a call whose reply was not received returned no error")
         /\ UNCHANGED <<outstanding, regs>>
    [] e.ev = "IdStress" ->
         \* C03 / ClientConn!NextIdAtomic: concurrent draws of request ids are pairwise distinct
         /\ c03' = Set(c03, e.distinct # e.draws, "two requests in flight carry the same id (concurrent nextID calls returned the same value)")
         /\ UNCHANGED <<bad, open, outstanding, regs, c04>>
    [] e.ev = "Judge" ->
         \* C04: replies received completely before the failure are kept, every other call fails
         /\ c04' = Set(c04, (e.mustok /\ e.err # "") \/ (e.musterr /\ e.err = ""),
                       IF e.mustok THEN "a call whose reply had been received completely before the failure returned an error"
                       ELSE "a call whose reply was not received returned no error")
         /\ UNCHANGED <<bad, open, outstanding, regs, c03>>
    [] e.ev = "PReq" ->
         /\ c03' = Set(c03, e.bad \/ e.id \in outstanding,
                       IF e.bad THEN "a request did not reach the wire as one contiguous well-framed packet"
                       ELSE "two requests in flight carry the same id")
         /\ outstanding' = outstanding \cup {e.id}
         /\ UNCHANGED <<bad, open, regs, c04>>
    [] e.ev = "PResp" ->
         /\ outstanding' = outstanding \ {e.id}
         /\ UNCHANGED <<bad, open, regs, c03, c04>>
    [] e.ev = "PBad" ->
         /\ c03' = Set(c03, ~(Has(e, "expected") /\ e.expected), "the client->server stream does not parse as a sequence of frames")
         /\ UNCHANGED <<bad, open, outstanding, regs, c04>>
    [] e.ev = "CcPut" ->
         \* channel identity is an address and addresses are reused after garbage collection, so a registration is the pair
         \* (channel, request id); request ids are unique within a client
         /\ regs' = Upd(regs, e.ch, [sid |-> e.sid, n |-> 0])
         /\ UNCHANGED <<bad, open, outstanding, c03, c04>>
    [] e.ev = "CcDeliver" ->
         \* "closed": putChannel refused the registration and answers on the channel itself
         /\ regs' = IF e.how = "closed" THEN Upd(regs, e.ch, [sid |-> e.sid, n |-> 1])
                    ELSE IF e.ch \in DOMAIN regs /\ regs[e.ch].sid = e.sid THEN Upd(regs, e.ch, [sid |-> e.sid, n |-> regs[e.ch].n + 1])
                    ELSE regs
         /\ c04' = Set(c04, e.how # "closed" /\ e.ch \in DOMAIN regs /\ regs[e.ch].sid = e.sid /\ regs[e.ch].n >= 1,
                       "a waiting caller was notified twice (second result sent to its channel)")
         /\ UNCHANGED <<bad, open, outstanding, c03>>
    [] e.ev = "Panic" ->
         /\ c04' = Set(c04, TRUE, "an operation panicked instead of returning an error")
         /\ UNCHANGED <<bad, open, outstanding, regs, c03>>
    [] e.ev = "End" ->
         /\ c04' = Set(c04, e.hung # 0 \/ ~e.waitret \/ ~e.closeret \/ e.goroutines # 0 \/ open # {},
                       IF e.hung # 0 \/ open # {} THEN "an operation did not return after the connection was lost"
                       ELSE IF ~e.waitret THEN "Client.Wait did not return"
                       ELSE IF ~e.closeret THEN "Client.Close did not return"
                       ELSE "goroutines started by the package survive Close")
         /\ UNCHANGED <<bad, open, outstanding, regs, c03>>
    [] OTHER -> bad' = "unknown event" /\ UNCHANGED <<open, outstanding, regs, c03, c04>>

Next == l <= Len(Trace) /\ Step(Trace[l]) /\ l' = l + 1
Spec == Init /\ [][Next]_vars

Inv_WellFormed == bad = ""
Inv_C03 == c03 = ""
Inv_C04 == c04 = ""
=============================================================================
