SPECIFICATION Spec
INVARIANTS Export
CHECK_DEADLOCK FALSE
