------------------------------ MODULE Handshake ------------------------------
(* C19: version and extension negotiation (sftp.go:247-258 SetSFTPExtensions, client.go:309-362 sendInit /
   recvVersion / HasExtension, client.go:2198-2227 Sync's guard, server INIT reply and extended-request dispatch).

   Three finite tables, defined from the protocol:
     Configs  : what SetSFTPExtensions does with a request list (all names valid -> the list is configured,
                otherwise nothing changes)
     Replies  : which answers to INIT establish a session (a well-formed VERSION packet with version 3)
     ExtNames : which extended-request names are served, and that any other is answered OP_UNSUPPORTED *)
EXTENDS Integers, Sequences, FiniteSets, TLC, Json

Supported == {"hardlink@openssh.com", "posix-rename@openssh.com", "statvfs@openssh.com"}
ExtData(n) == IF n = "statvfs@openssh.com" THEN "2" ELSE "1"
Invalid == {"fsync@openssh.com", "Statvfs@openssh.com", "bogus", ""}
Names == Supported \cup Invalid

SeqsUpTo(S, n) == UNION {[1..k -> S] : k \in 0..n}
ToSet(s) == {s[i] : i \in 1..Len(s)}

(* ---- configuration: SetSFTPExtensions(request) starting from `before` *)
Valid(req) == ToSet(req) \subseteq Supported
ConfigAfter(before, req) == IF Valid(req) THEN req ELSE before
ConfigCases == {[kind |-> "config", before |-> b, req |-> r, ok |-> Valid(r), after |-> ConfigAfter(b, r)] :
                  b \in {<<>>, <<"statvfs@openssh.com", "hardlink@openssh.com">>}, r \in SeqsUpTo(Names, 3)}

(* ---- handshake replies *)
Versions == {"0", "1", "2", "3", "4", "2147483647", "2147483648", "4294967295"}   \* decimal strings: TLC integers are 32 bit
ReplyTypes == {2, 1, 0, 101, 102, 104, 105, 201, 255}
ExtLists == {"none", "one", "two", "badpair", "hugelen"}
Frames == {"ok", "zero", "toolong", "cut1", "cut5", "cutall", "eof"}
ReplyCases == {[kind |-> "reply", ver |-> v, typ |-> t, exts |-> x, frame |-> f,
                accept |-> (t = 2 /\ v = "3" /\ x \in {"none", "one", "two"} /\ f = "ok")] :
                 v \in Versions, t \in ReplyTypes, x \in ExtLists, f \in Frames}

(* ---- extended requests against a server that advertises `adv` *)
AdvSets == SUBSET Supported
ExtCases == {[kind |-> "ext", adv |-> a, name |-> n, mustserve |-> (n \in a), mustrefuse |-> (n \notin Supported)] :
               a \in AdvSets, n \in Names \cup {"LONG"}}

Cases == ConfigCases \cup ReplyCases \cup ExtCases
=============================================================================
