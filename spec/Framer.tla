------------------------------- MODULE Framer -------------------------------
(* C08, packet framing (packet.go:313-371 recvPacket; filexfer/packets.go:98-146 readPacket): a frame is read from a
   reader that may deliver its bytes in ANY chunking and may report EOF or an error at any byte.

     phase "len"   : the 4 length bytes are being read (io.ReadFull)
     phase "body"  : the length was accepted (1..MaxLen), the body is being read
     "refused"     : zero or over-long length: an error is returned and NOTHING beyond the 4 length bytes was consumed
     "delivered"   : exactly `need` body bytes were read
     "error"       : the stream ended or failed before the frame was complete

   The stream content is abstract (only how many bytes are available); the declared length is chosen in Init. *)
EXTENDS Integers, Sequences, FiniteSets, TLC

CONSTANTS MaxAvail, Declared, Limit, CheckBeforeBody    \* Declared: set of declared lengths to explore; Limit: the 256 KiB limit (scaled)

VARIABLES avail,      \* bytes the peer will still deliver before EOF / error
          endsWith,   \* "eof" | "err": what the reader reports when avail = 0
          need,       \* declared length
          got,        \* bytes read in the current phase
          consumed,   \* bytes consumed from the reader in total
          phase

vars == <<avail, endsWith, need, got, consumed, phase>>

Init == avail \in 0..MaxAvail /\ endsWith \in {"eof", "err"} /\ need \in Declared /\ got = 0 /\ consumed = 0 /\ phase = "len"

(* the reader hands over k >= 1 bytes (any chunking) *)
ReadChunk(k) ==
  /\ phase \in {"len", "body"} /\ k >= 1 /\ k <= avail
  /\ k <= (IF phase = "len" THEN 4 ELSE need) - got
  /\ avail' = avail - k /\ got' = got + k /\ consumed' = consumed + k
  /\ UNCHANGED <<endsWith, need, phase>>

(* the 4 length bytes are in: accept or refuse BEFORE reading any body byte *)
LengthDone ==
  /\ phase = "len" /\ got = 4
  /\ phase' = IF CheckBeforeBody /\ (need = 0 \/ need > Limit) THEN "refused" ELSE "body"
  /\ got' = 0
  /\ UNCHANGED <<avail, endsWith, need, consumed>>

BodyDone ==
  /\ phase = "body" /\ got = need
  /\ phase' = IF ~CheckBeforeBody /\ (need = 0 \/ need > Limit) THEN "refused" ELSE "delivered"
  /\ UNCHANGED <<avail, endsWith, need, got, consumed>>

(* EOF or error from the reader while bytes are still missing *)
StreamEnds ==
  /\ phase \in {"len", "body"} /\ avail = 0
  /\ got < (IF phase = "len" THEN 4 ELSE need)
  /\ phase' = "error"
  /\ UNCHANGED <<avail, endsWith, need, got, consumed>>

Done == phase \in {"refused", "delivered", "error"} /\ UNCHANGED vars
Next == (\E k \in 1..MaxAvail : ReadChunk(k)) \/ LengthDone \/ BodyDone \/ StreamEnds \/ Done
Spec == Init /\ [][Next]_vars /\ WF_vars(Next)

Inv_C08_RefuseBeforeBody == phase = "refused" => consumed = 4
Inv_C08_NoShortDelivery  == phase = "delivered" => (got = need /\ need >= 1 /\ need <= Limit /\ consumed = 4 + need)
Inv_C08_BoundedRead      == consumed <= 4 + Limit
Live_C08_Total           == <>(phase \in {"refused", "delivered", "error"})
=============================================================================
