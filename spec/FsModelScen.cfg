SPECIFICATION Spec
CONSTANTS
  Names = {"a", "b", "c"}
  MaxNodes = 5
  MaxSteps = 12
INVARIANTS Inv_TreeOK Export
CHECK_DEADLOCK FALSE
