SPECIFICATION Spec
INVARIANTS Inv_WellFormed Inv_C16
CHECK_DEADLOCK FALSE
