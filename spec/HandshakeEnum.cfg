SPECIFICATION Spec
INVARIANTS Export Inv_ConfigSubsetSupported
CHECK_DEADLOCK FALSE
