------------------------------ MODULE FileProp ------------------------------
(* Property-level semantics of a remote File (C01, C12, C13): what every exported File method may return,
   given the served file's content, the File's implicit offset, and - for C13 - the set of "bad bytes"
   (the peer fails every READ/WRITE request whose range contains a bad byte, reporting the lowest one).

   Nothing here says how a transfer is cut into packets, how many requests are in flight or in which
   order replies arrive: those are the implementation's business (FileXfer.tla).  Bytes are integers. *)
EXTENDS Integers, Sequences, FiniteSets, TLC

Min2(a, b) == IF a < b THEN a ELSE b
Max2(a, b) == IF a > b THEN a ELSE b
MinSet(S) == CHOOSE x \in S : \A y \in S : x <= y

(* bytes [off, off+n) of a 0-based file *)
Slice(content, off, n) == SubSeq(content, off + 1, off + n)

(* content after writing data at off (zero fill between the old end and off) *)
Overlay(content, off, data) ==
  IF data = <<>> THEN content ELSE       \* writing nothing changes nothing (pwrite of 0 bytes does not extend a file)
  LET newLen == Max2(Len(content), off + Len(data)) IN
  [i \in 1..newLen |->
     IF i > off /\ i <= off + Len(data) THEN data[i - off]
     ELSE IF i <= Len(content) THEN content[i] ELSE 0]

(* lowest bad byte inside [off, off+len), or -1 *)
FirstBad(bad, off, len) ==
  LET S == {p \in bad : p >= off /\ p < off + len} IN IF S = {} THEN -1 ELSE MinSet(S)

ErrAt(p) == "E@" \o ToString(p)

(* ------------------------------------------------------------------------- reads
   A read-like call (ReadAt, Read, WriteTo) that starts at `off`, wants `len` bytes (WriteTo: up to the end),
   and returned (n, err) together with the bytes `data` it delivered.                                     *)

ReadOK(content, bad, off, len, n, err, data) ==
  LET size  == Len(content)
      avail == Max2(0, Min2(len, size - off))
      f     == FirstBad(bad, off, avail)
  IN
  /\ n = Len(data)
  /\ n >= 0 /\ n <= avail
  /\ data = Slice(content, off, n)                                   \* C01 / C13: the prefix is exactly the file's bytes
  /\ IF f >= 0
       THEN /\ err = ErrAt(f)                                         \* C13: the error of the lowest failing offset
            /\ n <= f - off                                           \* the count names a prefix that really moved
       ELSE /\ n = avail                                              \* C01: everything available was transferred
            /\ err = (IF avail < len THEN "EOF" ELSE "")              \* C13: EOF only at the true end, never a silent short count

(* ------------------------------------------------------------------------- writes
   A write-like call (WriteAt, Write) of `data` at `off` returned (n, err); `after` is the served file afterwards. *)

WriteOK(content, bad, off, data, n, err, after) ==
  LET f == FirstBad(bad, off, Len(data)) IN
  /\ n >= 0 /\ n <= Len(data)
  /\ Len(after) >= Len(content) /\ Len(after) <= (IF data = <<>> THEN Len(content) ELSE Max2(Len(content), off + Len(data)))
  /\ \A i \in 1..Len(after) :                                         \* nothing outside the call's range changes
        (i <= off \/ i > off + Len(data)) => after[i] = (IF i <= Len(content) THEN content[i] ELSE 0)
  /\ off + n <= Len(after) \/ n = 0
  /\ n > 0 => Slice(after, off, n) = SubSeq(data, 1, n)               \* the first n bytes are stored intact and contiguously
  /\ IF f >= 0
       THEN err = ErrAt(f) /\ n <= f - off
       ELSE err = "" /\ n = Len(data) /\ after = Overlay(content, off, data)

(* ReadFrom: `n` is the number of bytes consumed from the source, `pos` the File offset afterwards *)
ReadFromOK(content, bad, off, src, n, consumed, err, after, pos) ==
  LET f == FirstBad(bad, off, Len(src)) IN
  /\ n = consumed
  /\ IF f >= 0
       THEN /\ err = ErrAt(f)
            /\ pos >= off /\ pos <= f                                 \* the offset marks the end of the intact prefix
            /\ pos - off <= Len(after) - off \/ pos = off
            /\ pos > off => Slice(after, off, pos - off) = SubSeq(src, 1, pos - off)
       ELSE /\ err = "" /\ n = Len(src) /\ pos = off + Len(src)
            /\ after = Overlay(content, off, src)

(* ------------------------------------------------------------------------- Seek *)
SeekResult(offset, size, o, whence) ==
  LET target == CASE whence = 0 -> o [] whence = 1 -> offset + o [] whence = 2 -> size + o [] OTHER -> -1 IN
  IF whence \notin {0, 1, 2} THEN [pos |-> offset, err |-> "whence"]
  ELSE IF target < 0 THEN [pos |-> offset, err |-> "invalid"]
  ELSE [pos |-> target, err |-> ""]

=============================================================================
