----------------------------- MODULE AdapterEnum -----------------------------
(* Exhaustive enumeration of the Adapter.tla tables; TLC also checks the properties of the path function
   (absolute, clean, confined under any root) on every enumerated input. *)
EXTENDS Adapter
CONSTANT MaxSegs
VARIABLE c
Cases == PathCases(MaxSegs) \cup DispatchCases \cup {x \in ErrCases : ~(x.wrap # "bare" /\ (x.err = "nil" \/ SubSeq(x.err, 1, 3) = "fx:" \/ x.err = "io.ErrUnexpectedEOF" \/ x.err = "custom"))}
Init == c \in Cases
Next == UNCHANGED c
Spec == Init /\ [][Next]_c
Export == PrintT(<<"SCEN", ToJson(c)>>)
Inv_C10_AbsClean == c.kind = "path" => AbsClean(Clean(c.start, EffAbs(c.abs, c.trail, c.segs), c.segs))
(* joining the cleaned path under ANY root stays below that root: the cleaned path has no ".." segment left *)
Inv_C10_Confined == c.kind = "path" => \A i \in 1..Len(Clean(c.start, EffAbs(c.abs, c.trail, c.segs), c.segs)) : Clean(c.start, EffAbs(c.abs, c.trail, c.segs), c.segs)[i] # ".."
=============================================================================
