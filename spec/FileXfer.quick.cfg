SPECIFICATION Spec
CONSTANTS
  MaxSize = 4
  MaxLen = 5
  Ps = {2}
  Concs = {1, 2}
  MaxBad = 2
  Modes = {"read", "write", "writeTo"}
  ReduceLowest = TRUE
  OffsetOnData = TRUE
INVARIANTS Inv_C13_Result Inv_C12_WriteToOffset
CHECK_DEADLOCK TRUE
