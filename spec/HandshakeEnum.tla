---------------------------- MODULE HandshakeEnum ----------------------------
(* Exhaustive enumeration of the Handshake.tla tables (one initial state per case, printed for replay). *)
EXTENDS Handshake
VARIABLE c
Init == c \in Cases
Next == UNCHANGED c
Spec == Init /\ [][Next]_c
Export == PrintT(<<"SCEN", ToJson(c)>>)
(* the configuration can never contain an unsupported name, whatever sequence of requests is made *)
Inv_ConfigSubsetSupported == c.kind = "config" => ToSet(c.after) \subseteq Supported \/ c.after = c.before
=============================================================================
