SPECIFICATION Spec
INVARIANTS Inv_WellFormed Inv_C13
CHECK_DEADLOCK FALSE
