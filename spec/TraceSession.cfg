SPECIFICATION TSpec
CONSTANTS
  MaxOps = 40
  MaxOpen = 40
  MonotonicHandles = TRUE
  CloseDeletes = TRUE
  DropFailedOpen = TRUE
  SweepOnExit = TRUE
  TErrOnlyOpen = TRUE
INVARIANTS Inv_WellFormed Inv_C11_RealMatchesModel Inv_C11_Unique Inv_C11_ClosedOnce Inv_C11_NeverTwice Inv_C11_TErrExactlyOpen Inv_C11_CtxCancelled
CHECK_DEADLOCK FALSE
