------------------------------- MODULE TraceHS -------------------------------
(* Trace validation for C19: every case of the Handshake.tla tables replayed on the real code. *)
EXTENDS Handshake
Trace == ndJsonDeserialize("trace.ndjson")
VARIABLES l, bad, c19
tvars == <<l, bad, c19>>
TInit == l = 1 /\ bad = "" /\ c19 = ""
Set(v, cond, msg) == IF cond /\ v = "" THEN msg ELSE v

Step(e) ==
  CASE e.ev = "Reset" -> c19' = "" /\ UNCHANGED bad
    [] e.ev = "HSConfig" ->
         \* SetSFTPExtensions(req): error iff some name is unsupported; the advertised list (INIT reply of BOTH servers) is
         \* the request when valid and unchanged otherwise; the client reports exactly what was advertised
         LET after == ConfigAfter(e.before, e.req) IN
         /\ c19' = Set(c19, e.ok # Valid(e.req) \/ e.srvadv # after \/ e.rsadv # after \/ e.clientsees # after \/ e.version # 3,
                       IF e.ok # Valid(e.req) THEN "SetSFTPExtensions accepted an invalid request or refused a valid one"
                       ELSE IF e.srvadv # after \/ e.rsadv # after THEN "advertised extensions differ from the configured ones (an invalid request must change nothing)"
                       ELSE IF e.version # 3 THEN "server does not answer INIT with version 3"
                       ELSE "the client reports extensions other than those the server advertised")
         /\ UNCHANGED bad
    [] e.ev = "HSReply" ->
         LET acc == (e.typ = 2 /\ e.ver = "3" /\ e.exts \in {"none", "one", "two"} /\ e.frame = "ok") IN
         /\ c19' = Set(c19, e.established # acc \/ (acc /\ ~e.extsok) \/ ~e.clean,
                       IF e.established /\ ~acc THEN "a session was established with a peer that did not answer with a well-formed version-3 VERSION packet"
                       ELSE IF ~e.established /\ acc THEN "a correct version-3 handshake was rejected"
                       ELSE IF ~e.clean THEN "client construction did not fail cleanly (goroutines left or no return)"
                       ELSE "the client reports extensions other than those the server advertised")
         /\ UNCHANGED bad
    [] e.ev = "HSExt" ->
         \* on a read-only server the modifying extensions are refused with permission denied (C09): only the clauses about
         \* unknown names and the survival of the session apply there
         /\ c19' = Set(c19, (~e.ro /\ e.name \in ToSet(e.adv) /\ ~e.served) \/ (e.name \notin Supported /\ ~e.unsupported) \/ ~e.sessionok,
                       IF ~e.sessionok THEN "an extended request ended the session"
                       ELSE IF e.name \in Supported THEN "an advertised extension is not served"
                       ELSE "an unknown extended request was not answered with operation unsupported")
         /\ UNCHANGED bad
    [] e.ev \in {"Req", "Resp", "Setup", "ServeRet", "ConnClose", "PmFini", "Note", "PReq", "PResp", "PBad", "CcPut", "CcDeliver", "CcClosed"} -> UNCHANGED <<bad, c19>>
    [] OTHER -> bad' = "unknown event" /\ UNCHANGED c19

TNext == l <= Len(Trace) /\ Step(Trace[l]) /\ l' = l + 1
TSpec == TInit /\ [][TNext]_tvars
Inv_WellFormed == bad = ""
Inv_C19 == c19 = ""
=============================================================================
