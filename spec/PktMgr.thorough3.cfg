SPECIFICATION Spec
CONSTANTS
  NW = 2
  CapPkt = 1
  CapRW = 1
  CapCh = 1
  MaxReq = 4
  Handles = {"h1","h2"}
  Kinds = {"R","C","M"}
  Barrier = TRUE
  DrainOnFini = TRUE
  ReleaseAfterSend = TRUE
  TagNextOrder = TRUE
  StopOnMalformed = TRUE
  UseAlloc = TRUE
INVARIANTS TypeOK Inv_C02_Order Inv_C02_AllAnswered Inv_C14_NoRWAfterClose Inv_C18_Exclusive Inv_C18_QuiescentEmpty Inv_C07_NoActOnMalformed
CHECK_DEADLOCK TRUE
