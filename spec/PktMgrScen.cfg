SPECIFICATION ScenSpec
CONSTANTS
  NW = 3
  CapPkt = 2
  CapRW = 2
  CapCh = 2
  MaxReq = 7
  Handles = {"h1","h2"}
  Kinds = {"R","C","M"}
  Barrier = TRUE
  DrainOnFini = TRUE
  ReleaseAfterSend = TRUE
  TagNextOrder = TRUE
  StopOnMalformed = TRUE
  UseAlloc = FALSE
INVARIANTS Export Inv_C02_Order Inv_C14_NoRWAfterClose
CHECK_DEADLOCK FALSE
