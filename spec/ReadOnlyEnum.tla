---------------------------- MODULE ReadOnlyEnum ----------------------------
(* Exhaustive enumeration of the ReadOnly.tla decision table: one initial state per case; the invariant prints
   each case with its classification for replay on the real read-only server. *)
EXTENDS ReadOnly
VARIABLE c
Init == c \in Cases
Next == UNCHANGED c
Spec == Init /\ [][Next]_c

Export == PrintT(<<"SCEN", ToJson(c @@ [mutating |-> Mutating(c)])>>)
=============================================================================
