------------------------------ MODULE LinFile ------------------------------
(* C15: concurrent single-packet operations on one file are linearizable.

   The file is a vector of blocks; a write sets a range of blocks to one value (unique in the history), a
   read returns the values of a range of blocks, a size query returns the (constant) number of blocks.
   A recorded history (Call / Ret events in real-time order) is accepted iff TLC can place one internal
   Lin step per operation between its Call and its Ret such that every Ret carries the value computed at
   the Lin step: the linearizability search IS the model checking run.  The highest trace position reached
   is kept in TLC register 1 (the search stops at the first history that cannot be explained). *)
EXTENDS Integers, Sequences, FiniteSets, TLC, Json

Trace == ndJsonDeserialize("trace.ndjson")

VARIABLES l,        \* next trace line
          content,  \* block index -> value
          pos,      \* handle -> implicit offset (in blocks) of the File: advanced by the position-based Read ("P")
          pend      \* goroutine -> [op, b, k, v, hd, lin (BOOLEAN), res]  for its operation in progress

vars == <<l, content, pos, pend>>

NBlocks == 16
Fresh == [i \in 0..(NBlocks - 1) |-> 0]

Pos0 == [h \in 0..1 |-> 0]
Init == l = 1 /\ content = Fresh /\ pos = Pos0 /\ pend = <<>> /\ TLCSet(1, 1)

Put(f, k, v) == [x \in DOMAIN f \cup {k} |-> IF x = k THEN v ELSE f[x]]
Del(f, k) == [x \in DOMAIN f \ {k} |-> f[x]]

(* effect and result of an operation applied atomically *)
ResultOf(p) ==
  CASE p.op = "W" -> <<>>
    [] p.op = "R" -> [i \in 1..p.k |-> content[p.b + i - 1]]
    [] p.op = "P" -> [i \in 1..p.k |-> content[pos[p.hd] + i - 1]]      \* File.Read: k blocks at the handle's implicit offset
    [] p.op = "S" -> <<NBlocks>>
ContentAfter(p) ==
  IF p.op = "W" THEN [i \in 0..(NBlocks - 1) |-> IF i >= p.b /\ i < p.b + p.k THEN p.v ELSE content[i]] ELSE content

Ev == Trace[l]

Reset ==
  /\ l <= Len(Trace) /\ Ev.ev = "Reset" /\ pend = <<>>
  /\ content' = Fresh /\ pos' = Pos0 /\ pend' = <<>> /\ l' = l + 1

Skip ==
  /\ l <= Len(Trace) /\ Ev.ev \notin {"Reset", "LCall", "LRet", "LHang", "IdStress"}    \* LHang (an operation never returned) matches no action: the search stops there
  /\ l' = l + 1 /\ UNCHANGED <<content, pos, pend>>

(* the stress of the request-id draw: accepted only if all ids drawn concurrently were distinct (replies are routed by id) *)
IdStress ==
  /\ l <= Len(Trace) /\ Ev.ev = "IdStress" /\ Ev.distinct = Ev.draws
  /\ l' = l + 1 /\ UNCHANGED <<content, pos, pend>>

Call ==
  /\ l <= Len(Trace) /\ Ev.ev = "LCall" /\ Ev.g \notin DOMAIN pend
  /\ pend' = Put(pend, Ev.g, [op |-> Ev.op, b |-> Ev.b, k |-> Ev.k, v |-> Ev.v, hd |-> Ev.hd, lin |-> FALSE, res |-> <<>>])
  /\ l' = l + 1 /\ UNCHANGED <<content, pos>>

(* the internal step: the operation takes effect *)
Lin(g) ==
  /\ g \in DOMAIN pend /\ ~pend[g].lin
  /\ pend' = [pend EXCEPT ![g].lin = TRUE, ![g].res = ResultOf(pend[g])]
  /\ content' = ContentAfter(pend[g])
  /\ pos' = IF pend[g].op = "P" THEN [pos EXCEPT ![pend[g].hd] = @ + pend[g].k] ELSE pos
  /\ UNCHANGED l

Ret ==
  /\ l <= Len(Trace) /\ Ev.ev = "LRet" /\ Ev.g \in DOMAIN pend
  /\ pend[Ev.g].lin /\ pend[Ev.g].res = Ev.res       \* enabled only if the logged result is the computed one
  /\ Ev.err = ""                                     \* ... and the operation (within the file's extent) succeeded
  /\ pend' = Del(pend, Ev.g)
  /\ l' = l + 1 /\ UNCHANGED <<content, pos>>

Next == Reset \/ Skip \/ IdStress \/ Call \/ Ret \/ \E g \in DOMAIN pend : Lin(g)

Spec == Init /\ [][Next]_vars

(* keep the high-water mark of the trace position (needs -workers 1) *)
HighWater == TLCSet(1, IF l > TLCGet(1) THEN l ELSE TLCGet(1))
Accepted == PrintT(<<"HW", TLCGet(1), Len(Trace) + 1>>) /\ TLCGet(1) = Len(Trace) + 1
=============================================================================
