SPECIFICATION Spec
INVARIANTS Inv_WellFormed Inv_C02_OwnPayload Inv_C02_Order Inv_C02_LegalType Inv_C02_AllAnswered
CHECK_DEADLOCK FALSE
