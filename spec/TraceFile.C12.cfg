SPECIFICATION Spec
INVARIANTS Inv_WellFormed Inv_C12
CHECK_DEADLOCK FALSE
