SPECIFICATION TSpec
INVARIANTS Inv_WellFormed Inv_C09
CHECK_DEADLOCK FALSE
