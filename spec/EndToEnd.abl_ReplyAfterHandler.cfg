SPECIFICATION Spec
CONSTANTS
  Callers = {1, 2, 3, 4}
  Writers = {1, 2}
  NWorkers = 2
  ReplyAfterHandler = FALSE
  OwnBuffer = TRUE
  RouteById = TRUE
INVARIANT Inv_C15_Linearizable
CHECK_DEADLOCK FALSE
