SPECIFICATION Spec
INVARIANTS Inv_WellFormed Inv_C06
CHECK_DEADLOCK FALSE
