SPECIFICATION Spec
CONSTANTS
  MaxSize = 4
  MaxLen = 5
  Ps = {2}
  Concs = {1, 2}
  MaxBad = 2
  Modes = {"read", "write", "writeTo"}
  ReduceLowest = FALSE
  OffsetOnData = TRUE
INVARIANTS Inv_C13_Result
CHECK_DEADLOCK TRUE
