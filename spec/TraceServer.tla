---------------------------- MODULE TraceServer ----------------------------
(* Trace validation for one server connection: TLC reads the NDJSON file recorded by the Go harness
   from the REAL Server / RequestServer and evaluates the property-level formulas of ServerProp.tla
   (C02, C14, C18) after every event.

   The spec is a deterministic recorder: every event updates the observable history; the properties
   are INVARIANTS, so TLC names the one that fails; `bad` flags events the recorder cannot parse
   (a harness problem, never a verdict).  Many traces are concatenated, separated by Reset events. *)
EXTENDS Integers, Sequences, FiniteSets, TLC, Json, ServerProp

Trace == ndJsonDeserialize("trace.ndjson")

VARIABLES l,          \* index of the next line of Trace
          bad,        \* "" or the reason the recorder could not parse an event
          reqs,       \* well-formed requests of the current trace, arrival order: [id, typ]
          resps,      \* responses in emission order: [id, typ, code]
          must,       \* positions (in reqs) of reads/writes that precede the first close of their handle (C14: must succeed)
          closedSlots,\* handle slots for which a CLOSE has been sent
          mustOff,    \* handle slot -> offsets of the reads/writes that precede the first close of that slot
          opsEnded,   \* offsets of read/write handler calls that have returned
          c14,        \* "" or description of a C14 violation observed at an event
          holder,     \* page -> orders that own it and whose response is not yet written
          sent,       \* orders whose response has been written (pm.send)
          c18,        \* "" or description of a C18 violation observed at an event
          endrec      \* last End / Diff record ([kind |-> "none"] if none)

vars == <<l, bad, reqs, resps, must, closedSlots, mustOff, opsEnded, c14, holder, sent, c18, endrec>>

NoEnd == [kind |-> "none"]

Fresh ==
  /\ reqs' = <<>> /\ resps' = <<>> /\ must' = {} /\ closedSlots' = {}
  /\ mustOff' = <<>> /\ opsEnded' = {} /\ c14' = ""
  /\ holder' = <<>> /\ sent' = {} /\ c18' = "" /\ endrec' = NoEnd

Init ==
  /\ l = 1 /\ bad = ""
  /\ reqs = <<>> /\ resps = <<>> /\ must = {} /\ closedSlots = {}
  /\ mustOff = <<>> /\ opsEnded = {} /\ c14 = ""
  /\ holder = <<>> /\ sent = {} /\ c18 = "" /\ endrec = NoEnd

Get(f, k, d) == IF k \in DOMAIN f THEN f[k] ELSE d
Upd(f, k, v) == [x \in DOMAIN f \cup {k} |-> IF x = k THEN v ELSE f[x]]

Has(e, f) == f \in DOMAIN e

Ignored == {"Setup","WorkBegin","Ready","BarrierEnter","BarrierPass","ConnClose","ServeRet","Handler",
            "ObjOpen","ObjFinal","ObjTErr","PmFini","Note","Goroutines"}

Step(e) ==
  CASE e.ev = "Reset" -> Fresh /\ UNCHANGED bad
    [] e.ev \in Ignored -> UNCHANGED <<bad, reqs, resps, must, closedSlots, mustOff, opsEnded, c14, holder, sent, c18, endrec>>
    [] e.ev = "Req" ->
         /\ reqs' = IF e.wf THEN Append(reqs, [id |-> e.id, typ |-> e.typ, sig |-> IF Has(e, "sig") THEN e.sig ELSE -1]) ELSE reqs
         /\ must' = IF Has(e, "k") /\ e.k \in {"R","W"} /\ e.slot \notin closedSlots THEN must \cup {Len(reqs) + 1} ELSE must
         /\ closedSlots' = IF Has(e, "k") /\ e.k = "C" THEN closedSlots \cup {e.slot} ELSE closedSlots
         /\ mustOff' = IF Has(e, "k") /\ e.k \in {"R","W"} /\ e.slot \notin closedSlots
                         THEN Upd(mustOff, e.slot, Get(mustOff, e.slot, {}) \cup {e.off}) ELSE mustOff
         /\ UNCHANGED <<bad, resps, opsEnded, c14, holder, sent, c18, endrec>>
    [] e.ev = "Resp" ->
         /\ resps' = Append(resps, [id |-> e.id, typ |-> e.typ, code |-> e.code, sig |-> e.sig])
         /\ bad' = IF e.bad THEN "response frame does not parse" ELSE bad
         /\ UNCHANGED <<reqs, must, closedSlots, mustOff, opsEnded, c14, holder, sent, c18, endrec>>
    [] e.ev = "OpBegin" ->
         UNCHANGED <<bad, reqs, resps, must, closedSlots, mustOff, opsEnded, c14, holder, sent, c18, endrec>>
    [] e.ev = "OpEnd" ->
         /\ opsEnded' = IF e.rw \in {"R","W"} THEN opsEnded \cup {e.off} ELSE opsEnded
         /\ UNCHANGED <<bad, reqs, resps, must, closedSlots, mustOff, c14, holder, sent, c18, endrec>>
    [] e.ev = "ObjClose" ->
         \* the harness opens slot s first, so object s belongs to handle slot s (objects > 2 are listers etc.)
         /\ c14' = IF ~C14_CloseQuiet(Get(mustOff, e.obj, {}), opsEnded)
                     THEN "Close invoked before every read/write that preceded the close request had completed" ELSE c14
         /\ UNCHANGED <<bad, reqs, resps, must, closedSlots, mustOff, opsEnded, holder, sent, c18, endrec>>
    [] e.ev = "AllocGet" ->
         /\ holder' = Upd(holder, e.page, Get(holder, e.page, {}) \cup {e.o})
         /\ UNCHANGED <<bad, reqs, resps, must, closedSlots, mustOff, opsEnded, c14, sent, c18, endrec>>
    [] e.ev = "PmSend" ->
         /\ sent' = sent \cup {e.o}
         /\ holder' = [p \in DOMAIN holder |-> holder[p] \ {e.o}]
         /\ UNCHANGED <<bad, reqs, resps, must, closedSlots, mustOff, opsEnded, c14, c18, endrec>>
    [] e.ev = "AllocRel" ->
         /\ c18' = IF e.o \notin sent /\ e.n > 0 THEN "pages released before the response was written" ELSE c18
         /\ UNCHANGED <<bad, reqs, resps, must, closedSlots, mustOff, opsEnded, c14, holder, sent, endrec>>
    [] e.ev = "AllocFree" ->
         /\ holder' = <<>>
         /\ UNCHANGED <<bad, reqs, resps, must, closedSlots, mustOff, opsEnded, c14, sent, c18, endrec>>
    [] e.ev = "End" ->
         /\ endrec' = [kind |-> e.kind, nreq |-> e.nreq, nresp |-> e.nresp, timeout |-> e.timeout, used |-> e.used]
         /\ UNCHANGED <<bad, reqs, resps, must, closedSlots, mustOff, opsEnded, c14, holder, sent, c18>>
    [] e.ev = "Diff" ->
         /\ endrec' = [kind |-> "diff", equal |-> e.equal, prefix |-> e.prefix, complete |-> e.complete]
         /\ UNCHANGED <<bad, reqs, resps, must, closedSlots, mustOff, opsEnded, c14, holder, sent, c18>>
    [] OTHER ->
         /\ bad' = "unknown event"
         /\ UNCHANGED <<reqs, resps, must, closedSlots, mustOff, opsEnded, c14, holder, sent, c18, endrec>>

Next == l <= Len(Trace) /\ Step(Trace[l]) /\ l' = l + 1

Spec == Init /\ [][Next]_vars

(* ------------------------------------------------------------------ invariants *)

Inv_WellFormed == bad = ""

(* C02 *)
Inv_C02_Order     == C02_Order(reqs, resps)
Inv_C02_LegalType == C02_LegalType(reqs, resps)
Inv_C02_OwnPayload == C02_OwnPayload(reqs, resps)
Inv_C02_AllAnswered ==
  endrec.kind \in {"open", "eof"} => (~endrec.timeout /\ endrec.nresp = endrec.nreq /\ C02_AllAnswered(reqs, resps))

(* C14 *)
Inv_C14_NoRWAfterClose == c14 = ""
Inv_C14_AllSucceed ==
  \A i \in 1..Len(resps) :
     (i <= Len(reqs) /\ i \in must) =>
        (resps[i].typ = "DATA" \/ (resps[i].typ = "STATUS" /\ resps[i].code = 0))

(* C18 *)
Inv_C18_Exclusive        == C18_Exclusive(holder)
Inv_C18_ReleaseAfterSend == c18 = ""
Inv_C18_QuiescentEmpty   == endrec.kind = "open" => endrec.used <= 1   \* the receiver already holds the page for the NEXT packet
Inv_C18_SameBytes        == endrec.kind = "diff" => (endrec.prefix /\ (endrec.complete => endrec.equal))

=============================================================================
