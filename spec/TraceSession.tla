---------------------------- MODULE TraceSession ----------------------------
(* Trace validation for C11: the harness runs sequential sessions on the real servers and logs one
   "Op" event per request/response pair; this spec DRIVES the actions of Session.tla with the logged
   arguments (handle strings mapped to small integers by first occurrence) and compares what the real
   server answered, and the Close / TransferError / context counters of the instrumented handler
   objects, with the model.  *)
EXTENDS Session, Json

Trace == ndJsonDeserialize("trace.ndjson")

VARIABLES l, bad,
          c11,     \* "" or description of a disagreement between the real server and the property
          kind     \* "rs" | "server" of the current trace

tvars == <<vars, l, bad, c11, kind>>

TInit == Init /\ l = 1 /\ bad = "" /\ c11 = "" /\ kind = ""

Reinit ==
  /\ counter' = 0 /\ issued' = <<>> /\ valid' = {} /\ hasObj' = {}
  /\ closeCnt' = [h \in Handle |-> 0] /\ terrCnt' = [h \in Handle |-> 0] /\ ctxDone' = [h \in Handle |-> FALSE]
  /\ openAtEnd' = {} /\ phase' = "serving" /\ nops' = 0 /\ last' = "none"

Ignored == {"Setup","WorkBegin","Ready","BarrierEnter","BarrierPass","ConnClose","ServeRet","Handler","Req","Resp",
            "ObjOpen","ObjClose","ObjTErr","OpBegin","OpEnd","PmFini","PmSend","AllocGet","AllocRel","AllocFree","Note"}

Flag(cond, msg) == c11' = IF cond /\ c11 = "" THEN msg ELSE c11

Step(e) ==
  CASE e.ev = "Reset" -> Reinit /\ kind' = e.server /\ c11' = "" /\ UNCHANGED bad
    [] e.ev \in Ignored -> UNCHANGED <<vars, bad, c11, kind>>
    [] e.ev = "Op" /\ e.op = "openok" ->
         /\ OpenOkH(e.h)
         /\ Flag(FALSE, "")
         /\ UNCHANGED <<bad, kind>>
    [] e.ev = "Op" /\ e.op = "openfail" ->
         /\ OpenFail(FALSE)
         /\ Flag(e.touchedObj \/ ~e.ctxnow, IF e.touchedObj THEN "a failed open left an object behind"
                                              ELSE "the context handed to the handler of a failed open was not cancelled when the request was answered")
         /\ UNCHANGED <<bad, kind>>
    [] e.ev = "Op" /\ e.op = "use" ->
         /\ Use(e.h)
         /\ Flag(\/ (e.h \in valid) # e.ok
                 \/ (e.h \notin valid /\ e.touched),
                 IF e.h \in valid THEN "request on an open handle failed"
                 ELSE IF e.ok THEN "request on a closed or never issued handle succeeded"
                 ELSE "request on a closed or never issued handle reached a handler or changed a file")
         /\ UNCHANGED <<bad, kind>>
    [] e.ev = "Op" /\ e.op = "close" ->
         /\ Close(e.h, e.objfail)
         /\ Flag((e.h \in valid /\ ~e.objfail) # e.ok \/ ~e.ctxnow,
                 IF (e.h \in valid /\ ~e.objfail) = e.ok THEN "the context handed to the open handler was not cancelled when its handle was closed"
                 ELSE IF e.h \in valid THEN (IF e.objfail THEN "close succeeded although the object's Close reported an error" ELSE "close of an open handle failed")
                 ELSE "close of a closed or never issued handle succeeded")
         /\ UNCHANGED <<bad, kind>>
    [] e.ev = "Op" /\ e.op = "inflightopen" ->
         \* an OPEN whose reply is not awaited: the model takes no step; its object (if any) is judged at ObjFinal (h = 0)
         UNCHANGED <<vars, bad, c11, kind>>
    [] e.ev = "Op" /\ e.op = "end" ->
         /\ ConnEnd /\ UNCHANGED <<bad, c11, kind>>
    [] e.ev = "Op" /\ e.op = "returned" ->
         /\ Sweep
         /\ Flag(~e.returned, "Serve did not return after the connection ended")
         /\ UNCHANGED <<bad, kind>>
    [] e.ev = "ObjFinal" /\ e.h = 0 ->
         \* object of the OPEN that was in flight when the connection ended: it was obtained from a handler, so it must be
         \* closed exactly once, notified (reader/writer), its context cancelled
         /\ Flag(e.nclose # 1 \/ e.nterr # (IF e.kind = "List" THEN 0 ELSE 1) \/ ~e.ctxdone \/ e.inflight # 0,
                 "object obtained by an open that was in flight at the end of the connection not released exactly once")
         /\ UNCHANGED <<vars, bad, kind>>
    [] e.ev = "ObjFinal" ->
         \* counters of one instrumented handler object against the model (evaluated after Sweep)
         \* TransferError is documented for readers and writers only (request-interfaces.go): a lister is never notified
         /\ Flag(\/ e.nclose # closeCnt[e.h]
                 \/ e.nterr # (IF e.kind = "List" THEN 0 ELSE terrCnt[e.h])
                 \/ e.ctxdone # ctxDone[e.h]
                 \/ e.inflight # 0,
                 IF e.nclose # closeCnt[e.h] THEN "object not closed exactly once"
                 ELSE IF e.nterr # (IF e.kind = "List" THEN 0 ELSE terrCnt[e.h]) THEN "transfer-error notification not delivered exactly to objects still open"
                 ELSE IF e.ctxdone # ctxDone[e.h] THEN "context of the open request not cancelled"
                 ELSE "handler call still running after Serve returned")
         /\ UNCHANGED <<vars, bad, kind>>
    [] e.ev = "Leak" ->
         /\ Flag(e.fds # 0, "files still open after Serve returned")
         /\ UNCHANGED <<vars, bad, kind>>
    [] OTHER -> bad' = "unknown event" /\ UNCHANGED <<vars, c11, kind>>

TNext == l <= Len(Trace) /\ Step(Trace[l]) /\ l' = l + 1

TSpec == TInit /\ [][TNext]_tvars

Inv_WellFormed == bad = ""
Inv_C11_RealMatchesModel == c11 = ""
=============================================================================
