------------------------------ MODULE ReadOnly ------------------------------
(* C09: decision table of the read-only gate of the os-backed Server (server.go:190-210, packet-typing.go:61-71,
   server.go:468-470, packet.go readonly() of the extended packets).

   `Mutating` is defined from the PROTOCOL, not from the code: a request is mutating iff serving it could create,
   remove, rename, link, truncate or otherwise modify a file, directory or attribute.  The table is finite;
   TLC enumerates every case (spec/ReadOnly.cfg prints them for replay) and TraceRO.tla checks what the real
   read-only server did with each of them. *)
EXTENDS Integers, Sequences, FiniteSets, TLC, Json

Bit(x, b) == (x \div b) % 2 = 1

PathTypes  == {"REMOVE", "MKDIR", "RMDIR", "RENAME", "SYMLINK", "READLINK", "REALPATH", "STAT", "LSTAT", "OPENDIR",
               "EXT:statvfs@openssh.com", "EXT:posix-rename@openssh.com", "EXT:hardlink@openssh.com",
               "EXT:fsync@openssh.com", "EXT:unknown@example.com", "EXT:"}
Targets    == {"file", "missing", "dir", "symlink", "dangling"}
HandleOps  == {<<"WRITE", "filehandle">>, <<"READ", "filehandle">>, <<"FSTAT", "filehandle">>, <<"CLOSE", "filehandle">>,
               <<"READDIR", "dirhandle">>, <<"FSTAT", "dirhandle">>, <<"READDIR", "filehandle">>, <<"WRITE", "dirhandle">>}

Case(t, pf, tg, af, via) == [typ |-> t, pflags |-> pf, target |-> tg, aflags |-> af, via |-> via]

Cases ==
       {Case("OPEN", pf, tg, 0, "path") : pf \in 0..63, tg \in Targets}
  \cup {Case("SETSTAT", 0, tg, af, "path") : af \in 0..31, tg \in Targets}
  \cup {Case("FSETSTAT", 0, "file", af, via) : af \in 0..31, via \in {"filehandle", "dirhandle"}}
  \cup {Case(t, 0, tg, 0, "path") : t \in PathTypes, tg \in Targets}
  \cup {Case(h[1], 0, "file", 0, h[2]) : h \in HandleOps}

(* SSH_FXF_WRITE = 2, APPEND = 4, CREAT = 8, TRUNC = 16 *)
Mutating(c) ==
  \/ c.typ \in {"WRITE", "SETSTAT", "FSETSTAT", "REMOVE", "MKDIR", "RMDIR", "RENAME", "SYMLINK",
                "EXT:posix-rename@openssh.com", "EXT:hardlink@openssh.com"}
  \/ c.typ = "OPEN" /\ (Bit(c.pflags, 2) \/ Bit(c.pflags, 4) \/ Bit(c.pflags, 8) \/ Bit(c.pflags, 16))

PermissionDenied == 3

=============================================================================
