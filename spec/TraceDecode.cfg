SPECIFICATION Spec
INVARIANTS Inv_WellFormed Inv_C08
CHECK_DEADLOCK FALSE
