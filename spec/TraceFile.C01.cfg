SPECIFICATION Spec
INVARIANTS Inv_WellFormed Inv_C01
CHECK_DEADLOCK FALSE
