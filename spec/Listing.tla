------------------------------ MODULE Listing ------------------------------
(* C16: a directory listing returns every entry exactly once.

   client   ReadDir loop: READDIR until a STATUS arrives, EOF -> nil          client.go:379-431
   server   RequestServer filelist: ListAt at lsNext, lsInc(n), a STATUS only
            when nothing was returned                                          request.go:512-554
   lister   ANY ListerAt that honours the contract: it returns at most len(buffer) entries starting at the
            offset, reports io.EOF only when there is nothing behind what it returns, and never returns
            (0, nil).  Short batches and "EOF together with the last entries" are both legal.

   The lister's choices are nondeterministic, so TLC explores every legal lister for every directory size and
   batch size within the bounds.  Mechanisms: IncByReturned (offset advances by the number of entries returned),
   StatusOnlyWhenEmpty (EOF with entries still delivers the entries). *)
EXTENDS Integers, Sequences, FiniteSets, TLC

CONSTANTS MaxN, Bs, IncByReturned, StatusOnlyWhenEmpty

VARIABLES n, B,        \* directory size and batch size (chosen in Init)
          lsoffset,    \* server: listing offset of the handle
          got,         \* client: entries accumulated (sequence of entry numbers)
          pc,          \* "request" | "done"
          err,         \* client's final error ("" = nil)
          script       \* history: the lister's answers <<k, eof>>

vars == <<n, B, lsoffset, got, pc, err, script>>

Init == n \in 0..MaxN /\ B \in Bs /\ lsoffset = 0 /\ got = <<>> /\ pc = "request" /\ err = "" /\ script = <<>>

(* one READDIR round trip *)
Readdir(k, eof) ==
  /\ pc = "request"
  /\ lsoffset <= n
  /\ k \in 0..(IF n - lsoffset < B THEN n - lsoffset ELSE B)
  /\ (k = 0 => eof)                         \* contract: progress or EOF
  /\ (eof => lsoffset + k = n)              \* contract: EOF only when nothing is left
  /\ script' = Append(script, <<k, eof>>)
  /\ lsoffset' = lsoffset + (IF IncByReturned THEN k ELSE B)
  /\ IF eof /\ (k = 0 \/ ~StatusOnlyWhenEmpty)
       THEN /\ pc' = "done" /\ err' = "" /\ UNCHANGED got                  \* STATUS EOF: the loop ends with nil
       ELSE /\ got' = got \o [i \in 1..k |-> lsoffset + i] /\ UNCHANGED <<pc, err>>
  /\ UNCHANGED <<n, B>>

(* the offset ran past the end (only reachable when a mechanism is ablated): the lister has nothing there *)
PastEnd ==
  /\ pc = "request" /\ lsoffset > n
  /\ pc' = "done" /\ err' = "" /\ UNCHANGED <<n, B, lsoffset, got, script>>

Done == pc = "done" /\ UNCHANGED vars

Next == (\E k \in 0..MaxN, eof \in BOOLEAN : Readdir(k, eof)) \/ PastEnd \/ Done
Spec == Init /\ [][Next]_vars /\ WF_vars(Next)

Inv_C16_Exact == pc = "done" => (err = "" /\ got = [i \in 1..n |-> i])
Inv_C16_NoDuplicate == \A i, j \in 1..Len(got) : i # j => got[i] # got[j]
Live_C16_Terminates == <>(pc = "done")
=============================================================================
