SPECIFICATION Spec
CONSTANTS
  Callers = {1, 2, 3, 4, 5}
  Writers = {1, 2}
  NWorkers = 3
  ReplyAfterHandler = TRUE
  OwnBuffer = TRUE
  RouteById = TRUE
INVARIANT Inv_C15_Linearizable
CHECK_DEADLOCK FALSE
