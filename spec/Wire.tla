-------------------------------- MODULE Wire --------------------------------
(* Reference semantics of the SFTP v3 wire format (draft-ietf-secsh-filexfer-02) and of the OpenSSH extensions
   (statvfs, posix-rename, hardlink, fsync), used by C06 (lossless, two codecs agree), C08 (decoding is total)
   and C20 (which replies are well-formed).

   A packet is [t |-> type byte, f |-> sequence of field values]; the layout of each packet type is a SCHEMA: a
   sequence of field kinds.  One generic encoder and one generic (total) decoder interpret the schema.
   Bytes are integers 0..255.  32/64-bit numbers are kept as 4/8-byte sequences (TLC integers are 32 bit);
   only lengths and counts are converted to integers.

   field kinds:  "u32" "u64"            fixed width numbers (byte sequences)
                 "str"                  uint32 length + bytes
                 "attrs"                ATTRS block: flags word, then the fields whose flag is set
                 "names"                uint32 count + count x (str name, str longname, attrs)
                 "pairs"                (str, str)* until the end of the packet (INIT / VERSION extensions)
                 "rest"                 remaining bytes verbatim                                              *)
EXTENDS Integers, Sequences, FiniteSets, TLC

Byte == 0..255
U32n(n) == <<(n \div 16777216) % 256, (n \div 65536) % 256, (n \div 256) % 256, n % 256>>
(* value of a 4-byte field as an integer, saturated at 2^31-1 *)
N32(b) == IF b[1] >= 128 THEN 2147483647 ELSE b[1] * 16777216 + b[2] * 65536 + b[3] * 256 + b[4]

Schema(t) ==
  CASE t \in {1, 2}                       -> <<"u32", "pairs">>                       \* INIT, VERSION
    [] t = 3                              -> <<"u32", "str", "u32", "attrs">>         \* OPEN id path pflags attrs
    [] t \in {4, 8, 12}                   -> <<"u32", "str">>                         \* CLOSE FSTAT READDIR (handle)
    [] t = 5                              -> <<"u32", "str", "u64", "u32">>           \* READ id handle offset len
    [] t = 6                              -> <<"u32", "str", "u64", "str">>           \* WRITE id handle offset data
    [] t \in {7, 11, 13, 15, 16, 17, 19}  -> <<"u32", "str">>                         \* LSTAT OPENDIR REMOVE RMDIR REALPATH STAT READLINK
    [] t \in {9, 10, 14}                  -> <<"u32", "str", "attrs">>                \* SETSTAT FSETSTAT MKDIR
    [] t \in {18, 20}                     -> <<"u32", "str", "str">>                  \* RENAME SYMLINK
    [] t = 101                            -> <<"u32", "u32", "str", "str">>           \* STATUS id code message language
    [] t \in {102, 103}                   -> <<"u32", "str">>                         \* HANDLE DATA
    [] t = 104                            -> <<"u32", "names">>                       \* NAME
    [] t = 105                            -> <<"u32", "attrs">>                       \* ATTRS
    [] t = 200                            -> <<"u32", "str", "rest">>                 \* EXTENDED id name payload
    [] t = 201                            -> <<"u32", "rest">>                        \* EXTENDED_REPLY
    [] OTHER                              -> <<"unknown">>

KnownType(t) == Schema(t) # <<"unknown">>

(* attribute flags: SIZE 1, UIDGID 2, PERMISSIONS 4, ACMODTIME 8, EXTENDED 0x80000000 *)
FlagWord(fl) == <<IF "ext" \in fl THEN 128 ELSE 0, 0, 0,
                  (IF "size" \in fl THEN 1 ELSE 0) + (IF "uidgid" \in fl THEN 2 ELSE 0) + (IF "perm" \in fl THEN 4 ELSE 0) + (IF "time" \in fl THEN 8 ELSE 0)>>

RECURSIVE EncPairs(_)
EncStr(s) == U32n(Len(s)) \o s
EncPairs(ps) == IF ps = <<>> THEN <<>> ELSE EncStr(ps[1][1]) \o EncStr(ps[1][2]) \o EncPairs(Tail(ps))

EncAttrs(a) ==
  FlagWord(a.fl)
  \o (IF "size" \in a.fl THEN a.size ELSE <<>>)
  \o (IF "uidgid" \in a.fl THEN a.uid \o a.gid ELSE <<>>)
  \o (IF "perm" \in a.fl THEN a.perm ELSE <<>>)
  \o (IF "time" \in a.fl THEN a.atime \o a.mtime ELSE <<>>)
  \o (IF "ext" \in a.fl THEN U32n(Len(a.ext)) \o EncPairs(a.ext) ELSE <<>>)

RECURSIVE EncNames(_)
EncNames(ns) == IF ns = <<>> THEN <<>> ELSE EncStr(ns[1].name) \o EncStr(ns[1].long) \o EncAttrs(ns[1].attrs) \o EncNames(Tail(ns))

EncField(kind, v) ==
  CASE kind \in {"u32", "u64", "rest"} -> v
    [] kind = "str"   -> EncStr(v)
    [] kind = "attrs" -> EncAttrs(v)
    [] kind = "names" -> U32n(Len(v)) \o EncNames(v)
    [] kind = "pairs" -> EncPairs(v)

RECURSIVE EncFields(_, _)
EncFields(sch, vals) == IF sch = <<>> THEN <<>> ELSE EncField(sch[1], vals[1]) \o EncFields(Tail(sch), Tail(vals))

(* the complete frame: uint32 length of what follows, type byte, fields *)
Enc(p) == LET body == <<p.t>> \o EncFields(Schema(p.t), p.f) IN U32n(Len(body)) \o body

(* ------------------------------------------------------------------ decoding: total, never reads past the input *)
Short == [ok |-> FALSE, v |-> <<>>, rest |-> <<>>]
Ok(v, rest) == [ok |-> TRUE, v |-> v, rest |-> rest]
Drop(b, n) == SubSeq(b, n + 1, Len(b))

DecFixed(b, n) == IF Len(b) < n THEN Short ELSE Ok(SubSeq(b, 1, n), Drop(b, n))
DecStr(b) ==
  IF Len(b) < 4 THEN Short
  ELSE LET n == N32(b) IN IF n > Len(b) - 4 THEN Short ELSE Ok(SubSeq(b, 5, 4 + n), Drop(b, 4 + n))

RECURSIVE DecPairsN(_, _, _)
(* n pairs (n = -1: until the input is exhausted) *)
DecPairsN(b, n, acc) ==
  IF n = 0 \/ (n < 0 /\ b = <<>>) THEN Ok(acc, b)
  ELSE LET k == DecStr(b) IN
       IF ~k.ok THEN Short
       ELSE LET d == DecStr(k.rest) IN
            IF ~d.ok THEN Short ELSE DecPairsN(d.rest, IF n < 0 THEN n ELSE n - 1, Append(acc, <<k.v, d.v>>))

FlagsOf(w) == (IF w[1] >= 128 THEN {"ext"} ELSE {}) \cup (IF w[4] % 2 = 1 THEN {"size"} ELSE {}) \cup (IF (w[4] \div 2) % 2 = 1 THEN {"uidgid"} ELSE {})
              \cup (IF (w[4] \div 4) % 2 = 1 THEN {"perm"} ELSE {}) \cup (IF (w[4] \div 8) % 2 = 1 THEN {"time"} ELSE {})

Z4 == <<0, 0, 0, 0>>
Z8 == <<0, 0, 0, 0, 0, 0, 0, 0>>
DecAttrs(b) ==
  IF Len(b) < 4 THEN Short
  ELSE LET fl == FlagsOf(b)
           b1 == Drop(b, 4)
           s  == IF "size" \in fl THEN DecFixed(b1, 8) ELSE Ok(Z8, b1) IN
       IF ~s.ok THEN Short
       ELSE LET u == IF "uidgid" \in fl THEN DecFixed(s.rest, 8) ELSE Ok(Z8, s.rest) IN
            IF ~u.ok THEN Short
            ELSE LET p == IF "perm" \in fl THEN DecFixed(u.rest, 4) ELSE Ok(Z4, u.rest) IN
                 IF ~p.ok THEN Short
                 ELSE LET tm == IF "time" \in fl THEN DecFixed(p.rest, 8) ELSE Ok(Z8, p.rest) IN
                      IF ~tm.ok THEN Short
                      ELSE LET x == IF "ext" \in fl
                                      THEN (IF Len(tm.rest) < 4 THEN Short
                                            ELSE LET c == N32(tm.rest) IN
                                                 IF c > (Len(tm.rest) - 4) \div 8 THEN Short   \* each pair needs at least 8 bytes: bounded by the input
                                                 ELSE DecPairsN(Drop(tm.rest, 4), c, <<>>))
                                      ELSE Ok(<<>>, tm.rest) IN
                           IF ~x.ok THEN Short
                           ELSE Ok([fl |-> fl, size |-> s.v, uid |-> SubSeq(u.v, 1, 4), gid |-> SubSeq(u.v, 5, 8), perm |-> p.v,
                                    atime |-> SubSeq(tm.v, 1, 4), mtime |-> SubSeq(tm.v, 5, 8), ext |-> x.v], x.rest)

RECURSIVE DecNamesN(_, _, _)
DecNamesN(b, n, acc) ==
  IF n = 0 THEN Ok(acc, b)
  ELSE LET nm == DecStr(b) IN
       IF ~nm.ok THEN Short
       ELSE LET lg == DecStr(nm.rest) IN
            IF ~lg.ok THEN Short
            ELSE LET a == DecAttrs(lg.rest) IN
                 IF ~a.ok THEN Short ELSE DecNamesN(a.rest, n - 1, Append(acc, [name |-> nm.v, long |-> lg.v, attrs |-> a.v]))

DecField(kind, b) ==
  CASE kind = "u32"   -> DecFixed(b, 4)
    [] kind = "u64"   -> DecFixed(b, 8)
    [] kind = "str"   -> DecStr(b)
    [] kind = "attrs" -> DecAttrs(b)
    [] kind = "names" -> IF Len(b) < 4 THEN Short
                         ELSE LET c == N32(b) IN IF c > (Len(b) - 4) \div 12 THEN Short ELSE DecNamesN(Drop(b, 4), c, <<>>)   \* an entry needs >= 12 bytes
    [] kind = "pairs" -> DecPairsN(b, -1, <<>>)
    [] kind = "rest"  -> Ok(b, <<>>)

RECURSIVE DecFields(_, _, _)
DecFields(sch, b, acc) ==
  IF sch = <<>> THEN Ok(acc, b)
  ELSE LET d == DecField(sch[1], b) IN IF ~d.ok THEN Short ELSE DecFields(Tail(sch), d.rest, Append(acc, d.v))

MaxPacket == 262144

(* decode one frame from a byte string: "zero" / "long" / "short" / "unknown" / a packet *)
DecFrame(b) ==
  IF Len(b) < 4 THEN [class |-> "short"]
  ELSE LET n == N32(b) IN
       IF n = 0 THEN [class |-> "zero"]
       ELSE IF n > MaxPacket THEN [class |-> "long"]
       ELSE IF Len(b) - 4 < n THEN [class |-> "short"]
       ELSE LET t == b[5]  body == SubSeq(b, 6, 4 + n) IN
            IF ~KnownType(t) THEN [class |-> "unknown"]
            ELSE LET d == DecFields(Schema(t), body, <<>>) IN
                 IF ~d.ok THEN [class |-> "short"] ELSE [class |-> "ok", p |-> [t |-> t, f |-> d.v], trailing |-> Len(d.rest)]

(* well-formed = decodes, with nothing left over inside the frame *)
WellFormed(b) == DecFrame(b).class = "ok"

=============================================================================
