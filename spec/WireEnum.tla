------------------------------ MODULE WireEnum ------------------------------
(* Boundary-value enumeration of packets of every type, with the theorems of C06 checked by TLC on each:
     Thm_RoundTrip   DecFrame(Enc(p)) = p, nothing left over
     Thm_Length      the length prefix equals the number of bytes that follow it
   Each packet is printed with its reference encoding for replay into the two Go codecs. *)
EXTENDS Wire, Json

CONSTANT Level      \* 1 = quick (pairwise-ish), 2 = thorough (full products)

FF4 == <<255, 255, 255, 255>>
FF8 == <<255, 255, 255, 255, 255, 255, 255, 255>>
H4  == <<128, 0, 0, 0>>
One4 == <<0, 0, 0, 1>>
Ids  == IF Level = 1 THEN {<<0, 0, 0, 7>>, FF4} ELSE {Z4, One4, H4, FF4}
Offs == IF Level = 1 THEN {Z8, FF8} ELSE {Z8, <<0, 0, 0, 1, 0, 0, 0, 0>>, <<0, 0, 0, 0, 0, 0, 0, 1>>, FF8}
Long == [i \in 1..70 |-> 100 + (i % 7)]
Strs == IF Level = 1 THEN {<<>>, <<47, 97, 47, 98>>, <<128, 255>>} ELSE {<<>>, <<97>>, <<47, 97, 47, 98>>, <<128, 255>>, Long}
Datas == {<<>>, <<0>>, <<1, 2>>, Long}
ExtLists == {<<>>, <<<<<<97>>, <<98, 99>>>>>>, <<<<<<97>>, <<>>>>, <<<<120, 64, 121>>, <<122>>>>>>}
FlagSets == SUBSET {"size", "uidgid", "perm", "time", "ext"}
(* canonical attributes: absent fields are zero (that is what a decoder reports for them) *)
Attr(fl, big, ex) == [fl |-> fl,
                      size |-> IF "size" \in fl THEN (IF big THEN FF8 ELSE <<0, 0, 0, 0, 0, 0, 1, 0>>) ELSE Z8,
                      uid |-> IF "uidgid" \in fl THEN (IF big THEN FF4 ELSE One4) ELSE Z4,
                      gid |-> IF "uidgid" \in fl THEN (IF big THEN H4 ELSE <<0, 0, 0, 2>>) ELSE Z4,
                      perm |-> IF "perm" \in fl THEN (IF big THEN FF4 ELSE <<0, 0, 129, 164>>) ELSE Z4,
                      atime |-> IF "time" \in fl THEN (IF big THEN FF4 ELSE <<0, 0, 0, 3>>) ELSE Z4,
                      mtime |-> IF "time" \in fl THEN (IF big THEN H4 ELSE <<0, 0, 0, 4>>) ELSE Z4,
                      ext |-> IF "ext" \in fl THEN ex ELSE <<>>]
AttrsAll == {Attr(fl, big, ex) : fl \in FlagSets, big \in BOOLEAN, ex \in ExtLists}
Attrs1 == IF Level = 1 THEN {a \in AttrsAll : a.ext \in {<<>>, <<<<<<97>>, <<98, 99>>>>>>}} ELSE AttrsAll
AttrsFew == {Attr({}, FALSE, <<>>), Attr({"size", "perm"}, FALSE, <<>>), Attr({"size", "uidgid", "perm", "time", "ext"}, TRUE, <<<<<<97>>, <<98, 99>>>>>>)}
Pflags == IF Level = 1 THEN {<<0, 0, 0, 1>>, <<0, 0, 0, 58>>} ELSE {U32n(n) : n \in {0, 1, 2, 3, 26, 63}}
PairLists == {<<>>, <<<<<<115, 64, 111>>, <<50>>>>>>, <<<<<<97>>, <<49>>>>, <<<<98>>, <<>>>>>>}
Empty3(n) == [i \in 1..n |-> [name |-> <<>>, long |-> <<>>, attrs |-> Attr({}, FALSE, <<>>)]]
NameLists == {<<>>,
              \* entries of the MINIMUM size (12 bytes: two empty strings and a zero flags word): the boundary of every count-vs-length bound
              Empty3(1), Empty3(2), Empty3(3),
              <<[name |-> <<47>>, long |-> <<47>>, attrs |-> Attr({}, FALSE, <<>>)]>>,        \* the REALPATH reply for "/"
              <<[name |-> <<97>>, long |-> <<>>, attrs |-> Attr({}, FALSE, <<>>)], [name |-> <<>>, long |-> <<98>>, attrs |-> Attr({}, FALSE, <<>>)]>>,
              <<[name |-> <<97>>, long |-> <<108, 32, 97>>, attrs |-> Attr({"size", "perm"}, FALSE, <<>>)]>>,
              <<[name |-> <<46>>, long |-> <<>>, attrs |-> Attr({}, FALSE, <<>>)],
                [name |-> <<128, 255>>, long |-> Long, attrs |-> Attr({"size", "uidgid", "perm", "time", "ext"}, TRUE, <<<<<<97>>, <<98, 99>>>>>>)],
                [name |-> Long, long |-> <<120>>, attrs |-> Attr({"time"}, FALSE, <<>>)]>>}
P(t, f) == [t |-> t, f |-> f]

Packets ==
       {P(t, <<v, pl>>) : t \in {1, 2}, v \in {<<0, 0, 0, 3>>, FF4}, pl \in PairLists}
  \cup {P(3, <<id, s, pf, a>>) : id \in Ids, s \in Strs, pf \in Pflags, a \in Attrs1}
  \cup {P(t, <<id, s>>) : t \in {4, 8, 12, 7, 11, 13, 15, 16, 17, 19, 102}, id \in Ids, s \in Strs}
  \cup {P(5, <<id, s, o, n>>) : id \in Ids, s \in Strs, o \in Offs, n \in {Z4, <<0, 0, 128, 0>>, FF4}}
  \cup {P(6, <<id, s, o, d>>) : id \in Ids, s \in Strs, o \in Offs, d \in Datas}
  \cup {P(103, <<id, d>>) : id \in Ids, d \in Datas}
  \cup {P(t, <<id, s, a>>) : t \in {9, 10, 14}, id \in Ids, s \in Strs, a \in Attrs1}
  \cup {P(t, <<id, s1, s2>>) : t \in {18, 20}, id \in Ids, s1 \in Strs, s2 \in Strs}
  \cup {P(101, <<id, c, m, lg>>) : id \in Ids, c \in {Z4, One4, <<0, 0, 0, 8>>, FF4}, m \in Strs, lg \in {<<>>, <<101, 110>>}}
  \cup {P(104, <<id, nl>>) : id \in Ids, nl \in NameLists}
  \cup {P(105, <<id, a>>) : id \in Ids, a \in Attrs1}
  \* OpenSSH extensions: EXTENDED id name payload
  \cup {P(200, <<id, <<115, 116, 97, 116, 118, 102, 115, 64, 111, 112, 101, 110, 115, 115, 104, 46, 99, 111, 109>>, EncStr(s)>>) : id \in Ids, s \in Strs}
  \cup {P(200, <<id, <<112, 111, 115, 105, 120, 45, 114, 101, 110, 97, 109, 101, 64, 111, 112, 101, 110, 115, 115, 104, 46, 99, 111, 109>>, EncStr(s1) \o EncStr(s2)>>) : id \in Ids, s1 \in Strs, s2 \in Strs}
  \cup {P(200, <<id, <<104, 97, 114, 100, 108, 105, 110, 107, 64, 111, 112, 101, 110, 115, 115, 104, 46, 99, 111, 109>>, EncStr(s1) \o EncStr(s2)>>) : id \in Ids, s1 \in Strs, s2 \in Strs}
  \cup {P(200, <<id, <<102, 115, 121, 110, 99, 64, 111, 112, 101, 110, 115, 115, 104, 46, 99, 111, 109>>, EncStr(s)>>) : id \in Ids, s \in Strs}
  \* statvfs reply: eleven uint64
  \cup {P(201, <<id, Z8 \o FF8 \o Z8 \o Z8 \o FF8 \o Z8 \o Z8 \o Z8 \o FF8 \o Z8 \o <<0, 0, 0, 0, 0, 0, 0, 255>>>>) : id \in Ids}

VARIABLE c
Init == c \in Packets
Next == UNCHANGED c
Spec == Init /\ [][Next]_c

Thm_RoundTrip == LET d == DecFrame(Enc(c)) IN d.class = "ok" /\ d.p = c /\ d.trailing = 0
Thm_Length    == N32(Enc(c)) = Len(Enc(c)) - 4
Export == PrintT(<<"SCEN", ToJson([p |-> c, bytes |-> Enc(c)])>>)
=============================================================================
