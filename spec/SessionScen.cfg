SPECIFICATION ScenSpec
CONSTANTS
  MaxOps = 10
  MaxOpen = 4
  MonotonicHandles = TRUE
  CloseDeletes = TRUE
  DropFailedOpen = TRUE
  SweepOnExit = TRUE
  TErrOnlyOpen = TRUE
INVARIANTS Export Inv_C11_ClosedOnce
CHECK_DEADLOCK FALSE
