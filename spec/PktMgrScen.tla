----------------------------- MODULE PktMgrScen -----------------------------
(* Scenario export: behaviours of PktMgr (implementation-shaped model) are printed as
   (request program, completion order) pairs for replay on the real servers.
   Run with -simulate: every simulated behaviour that reaches termination prints one line. *)
EXTENDS PktMgr, Json

VARIABLE sched   \* history: the externally controllable choices of the behaviour

ScenInit == Init /\ sched = <<>>

Tag(x) == sched' = Append(sched, x)

ScenNext ==
  \/ \E k \in Kinds \ {"X"}, h \in Handles : RecvOk(k, h) /\ Tag([a |-> "recv", k |-> k, h |-> h, o |-> 0])
  \/ Eof /\ Len(reqs) >= 3 /\ Tag([a |-> "eof", k |-> "", h |-> "", o |-> 0])
  \/ \E w \in Workers : WEnd(w) /\ Tag([a |-> "end", k |-> "", h |-> "", o |-> wk[w].o])
  \/ CEnd /\ Tag([a |-> "end", k |-> "", h |-> "", o |-> cw.o])
  \/ /\ \/ DTake \/ DWait \/ DReg \/ DFwdRW \/ DFwdCmd \/ DClose \/ DFini
        \/ \E w \in Workers : WTake(w) \/ WReady(w)
        \/ CReady \/ CtlReq \/ CtlResp \/ CtlSend \/ CtlSendDone \/ CtlFini
     /\ UNCHANGED sched

ScenSpec == ScenInit /\ [][ScenNext]_<<vars, sched>>

Export == Terminated => PrintT(<<"SCEN", ToJson(sched)>>)
=============================================================================
