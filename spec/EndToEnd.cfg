SPECIFICATION Spec
CONSTANTS
  Callers = {1, 2, 3, 4}
  Writers = {1, 2}
  NWorkers = 2
  ReplyAfterHandler = TRUE
  OwnBuffer = TRUE
  RouteById = TRUE
INVARIANT Inv_C15_Linearizable
PROPERTY Live_AllReturn
CHECK_DEADLOCK FALSE
