SPECIFICATION Spec
CONSTANTS
  MaxN = 7
  Bs = {1, 2, 3}
  IncByReturned = TRUE
  StatusOnlyWhenEmpty = TRUE
INVARIANTS Export
CHECK_DEADLOCK FALSE
