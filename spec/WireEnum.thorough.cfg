SPECIFICATION Spec
CONSTANTS Level = 2
INVARIANTS Thm_RoundTrip Thm_Length Export
CHECK_DEADLOCK FALSE
