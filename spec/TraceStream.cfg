SPECIFICATION Spec
INVARIANTS Inv_WellFormed Inv_C07_ServeReturns Inv_C07_Released Inv_C07_NoActOnMalformed Inv_C07_PrefixResponses Inv_C02_Order Inv_C02_LegalType
CHECK_DEADLOCK FALSE
