------------------------------- MODULE TraceFs -------------------------------
(* Trace validation for C05: every step of an operation sequence is executed twice - through Client + os-backed Server on
   tree T1 and with the corresponding package os call on an identical tree T2 - and logged with both outcomes and whether
   the two trees (names, kinds, sizes, permission bits, link targets) are still identical afterwards.
   The property: same outcome category, same returned value, same tree, except for the documented differences. *)
EXTENDS Integers, Sequences, FiniteSets, TLC, Json
Trace == ndJsonDeserialize("trace.ndjson")
VARIABLES l, bad, c05
vars == <<l, bad, c05>>
Init == l = 1 /\ bad = "" /\ c05 = ""
Set(v, cond, msg) == IF cond /\ v = "" THEN msg ELSE v
Cats == {"ok", "notexist", "permission", "other"}

Step(e) ==
  CASE e.ev = "Reset" -> c05' = "" /\ UNCHANGED bad
    [] e.ev = "FsStep" ->
         /\ bad' = IF e.scat \notin Cats \/ e.ocat \notin Cats THEN "unknown outcome category" ELSE bad
         /\ c05' = Set(c05, e.scat # e.ocat \/ (e.scat = "ok" /\ e.sval # e.oval) \/ ~e.treeeq,
                       IF e.scat # e.ocat THEN "outcome category differs from package os: " \o e.op
                       ELSE IF ~e.treeeq THEN "the served tree differs from the tree package os produces: " \o e.op
                       ELSE "returned value differs from package os: " \o e.op)
    [] e.ev \in {"Note", "Req", "Resp", "ServeRet", "ConnClose", "PmFini"} -> UNCHANGED <<bad, c05>>
    [] OTHER -> bad' = "unknown event" /\ UNCHANGED c05
Next == l <= Len(Trace) /\ Step(Trace[l]) /\ l' = l + 1
Spec == Init /\ [][Next]_vars
Inv_WellFormed == bad = ""
Inv_C05 == c05 = ""
=============================================================================
