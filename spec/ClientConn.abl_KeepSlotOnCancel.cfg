SPECIFICATION Spec
CONSTANTS
  Callers = {"a","b","c"}
  TwoWrites = {"a","b"}
  AtomicNextId = TRUE
  SendLock = TRUE
  DeleteOnGet = TRUE
  HijackOnBroadcast = TRUE
  RefuseAfterClosed = TRUE
  SendErrDelivered = TRUE
  AllowRdFail = TRUE
  AllowWrFail = TRUE
  AllowCancel = TRUE
  ChanCap1 = TRUE
  AtomicPutCheck = TRUE
  CloseStopsWrites = TRUE
  SendErrToRegistered = TRUE
  KeepSlotOnCancel = FALSE
INVARIANTS Inv_C03_OwnReply Inv_C03_DistinctIds Inv_C03_Framing Inv_C04_NotifiedOnce Inv_C03_NoSpuriousTeardown
CHECK_DEADLOCK TRUE
