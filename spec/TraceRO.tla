------------------------------- MODULE TraceRO -------------------------------
(* Trace validation for C09: every case of the ReadOnly.tla table replayed on a real NewServer(..., ReadOnly()).
   Per case the harness logs the status of the request, whether the recursive snapshot of the served tree (names,
   types, modes, sizes, contents, link targets, mtimes) is unchanged, and the reply a WRITABLE server gave to the same
   request on a twin tree (only for non-mutating requests: "purely reading requests keep working"). *)
EXTENDS ReadOnly

Trace == ndJsonDeserialize("trace.ndjson")
VARIABLES l, bad, c09
tvars == <<l, bad, c09>>
TInit == l = 1 /\ bad = "" /\ c09 = ""
Set(v, cond, msg) == IF cond /\ v = "" THEN msg ELSE v

Step(e) ==
  CASE e.ev = "Reset" -> c09' = "" /\ UNCHANGED bad
    [] e.ev = "ROCase" ->
         LET k == Case(e.typ, e.pflags, e.target, e.aflags, e.via) IN
         /\ bad' = IF k \notin Cases THEN "case not in the table" ELSE bad
         /\ c09' = Set(c09, ~e.same \/ (Mutating(k) /\ ~(e.rtyp = "STATUS" /\ e.code = PermissionDenied))
                              \/ (~Mutating(k) /\ ~(e.rtyp = e.wtyp /\ e.code = e.wcode)),
                       IF ~e.same THEN "the served tree changed on a read-only server"
                       ELSE IF Mutating(k) THEN "a modifying request was not answered with permission denied"
                       ELSE "a purely reading request is answered differently than on a writable server")
    [] e.ev = "ROPipe" ->
         \* modifying requests pipelined to a slow reader: each answered with permission denied under its own id, in order
         /\ c09' = Set(c09, ~e.ok \/ ~e.same, IF ~e.same THEN "the served tree changed on a read-only server"
                                               ELSE "pipelined modifying requests were not each answered with permission denied under their own id")
         /\ UNCHANGED bad
    [] e.ev \in {"Req", "Resp", "Setup", "ServeRet", "ConnClose", "PmFini", "Note"} -> UNCHANGED <<bad, c09>>
    [] OTHER -> bad' = "unknown event" /\ UNCHANGED c09

TNext == l <= Len(Trace) /\ Step(Trace[l]) /\ l' = l + 1
TSpec == TInit /\ [][TNext]_tvars
Inv_WellFormed == bad = ""
Inv_C09 == c09 = ""
=============================================================================
