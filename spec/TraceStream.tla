---------------------------- MODULE TraceStream ----------------------------
(* Trace validation for C07: arbitrary byte streams fed to the real servers.

   For every mutated stream M the harness performs two runs on fresh servers:
     run A: the maximal well-formed prefix of M (request by request), then the rest of M, then EOF
     run B: the well-formed prefix alone, then EOF      ("as if the stream had stopped just before it")
   and logs, per run, whether Serve returned, goroutines and descriptors left, the final counters of
   every handler object, and finally whether state and responses of A equal those of B.
   The recorder keeps the wire history of the current run so that the C02 formulas are evaluated too. *)
EXTENDS Integers, Sequences, FiniteSets, TLC, Json, ServerProp

Trace == ndJsonDeserialize("trace.ndjson")

VARIABLES l, bad, hdr, reqs, resps,
          ret,     \* "" or why a run did not end properly (Serve's return)
          leak,    \* "" or what was left behind (goroutines, descriptors, unclosed objects)
          acted,   \* "" or evidence that a malformed packet (or something after it) was acted upon
          extra    \* "" or evidence that responses are not exactly those of the well-formed prefix

vars == <<l, bad, hdr, reqs, resps, ret, leak, acted, extra>>

Init == l = 1 /\ bad = "" /\ hdr = [kind |-> "none"] /\ reqs = <<>> /\ resps = <<>> /\ ret = "" /\ leak = "" /\ acted = "" /\ extra = ""

Ignored == {"Setup","WorkBegin","Ready","BarrierEnter","BarrierPass","ConnClose","ServeRet","Handler","ObjOpen","ObjClose","ObjTErr",
            "OpBegin","OpEnd","PmFini","PmSend","AllocGet","AllocRel","AllocFree","Note"}

Set(v, cond, msg) == IF cond /\ v = "" THEN msg ELSE v

Step(e) ==
  CASE e.ev = "Reset" ->
         /\ hdr' = e /\ reqs' = <<>> /\ resps' = <<>> /\ ret' = "" /\ leak' = "" /\ acted' = "" /\ extra' = ""
         /\ UNCHANGED bad
    [] e.ev \in Ignored -> UNCHANGED <<bad, hdr, reqs, resps, ret, leak, acted, extra>>
    [] e.ev = "RunBegin" -> reqs' = <<>> /\ resps' = <<>> /\ UNCHANGED <<bad, hdr, ret, leak, acted, extra>>
    [] e.ev = "Req" ->
         /\ reqs' = Append(reqs, [id |-> e.id, typ |-> e.typ, sig |-> -1])
         /\ UNCHANGED <<bad, hdr, resps, ret, leak, acted, extra>>
    [] e.ev = "Resp" ->
         /\ resps' = Append(resps, [id |-> e.id, typ |-> e.typ, code |-> e.code, sig |-> e.sig])
         /\ UNCHANGED <<bad, hdr, reqs, ret, leak, acted, extra>>
    [] e.ev = "RunEnd" ->
         /\ ret' = Set(ret, ~e.returned \/ e.timeout, "Serve did not return (or a well-formed request was never answered) - run " \o e.run)
         /\ leak' = Set(leak, e.goroutines # 0 \/ e.fds # 0,
                        IF e.goroutines # 0 THEN "goroutines of the package left behind after Serve returned" ELSE "files left open after Serve returned")
         /\ UNCHANGED <<bad, hdr, reqs, resps, acted, extra>>
    [] e.ev = "ObjFinal" ->
         /\ leak' = Set(leak, e.nclose # 1 \/ e.inflight # 0, "handler object not closed exactly once by the time Serve returned")
         /\ UNCHANGED <<bad, hdr, reqs, resps, ret, acted, extra>>
    [] e.ev = "Compare" ->
         \* a packet whose attribute block is shorter than its flags announce is decoded lazily by the package and
         \* answered with an error status, and the stream goes on; for those the state after the prefix plus that ONE frame
         \* (softStateEqual) is compared: the packet must not have been acted upon either
         /\ acted' = Set(acted, (~e.softmalformed /\ e.refComplete /\ ~e.stateEqual) \/ (e.softmalformed /\ e.refComplete /\ ~e.softStateEqual),
                         "served files / handlers differ from a run of the well-formed prefix alone: a malformed packet or something after it was acted upon")
         /\ extra' = Set(extra, ~e.softmalformed /\ e.refComplete /\ ~e.respEqual,
                         "responses differ from the responses to the well-formed prefix")
         /\ UNCHANGED <<bad, hdr, reqs, resps, ret, leak>>
    [] OTHER -> bad' = "unknown event" /\ UNCHANGED <<hdr, reqs, resps, ret, leak, acted, extra>>

Next == l <= Len(Trace) /\ Step(Trace[l]) /\ l' = l + 1
Spec == Init /\ [][Next]_vars

Inv_WellFormed == bad = ""
Inv_C07_ServeReturns      == ret = ""
Inv_C07_Released          == leak = ""
Inv_C07_NoActOnMalformed  == acted = ""
Inv_C07_PrefixResponses   == extra = ""
\* the wire history is complete only when nothing but the well-formed prefix was fed
Inv_C02_Order             == hdr.kind = "stream" /\ hdr.nrest = 0 => C02_Order(reqs, resps)
Inv_C02_LegalType         == hdr.kind = "stream" /\ hdr.nrest = 0 => C02_LegalType(reqs, resps)
=============================================================================
