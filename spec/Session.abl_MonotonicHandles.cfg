SPECIFICATION Spec
CONSTANTS
  MaxOps = 6
  MaxOpen = 3
  MonotonicHandles = FALSE
  CloseDeletes = TRUE
  DropFailedOpen = TRUE
  SweepOnExit = TRUE
  TErrOnlyOpen = TRUE
INVARIANTS Inv_C11_Unique
CHECK_DEADLOCK TRUE
