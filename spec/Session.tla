------------------------------ MODULE Session ------------------------------
(* Handle table and resource lifetime of ONE server connection (C11):

     Server:         nextHandle / closeHandle / getHandle          server.go:54-79
                     end-of-Serve sweep of openFiles               server.go:428-432
     RequestServer:  nextRequest / getRequest / closeRequest       request-server.go:105-141
                     failed opens drop their handle                request-server.go:253-268
                     Request.close / transferError / cancelCtx     request.go:242-300
                     end-of-Serve sweep of openRequests            request-server.go:203-219

   The session is sequential at this level (one request at a time; pipelining is the subject of
   PktMgr.tla).  Handles are modelled by their index in issue order; an object (file, reader,
   writer, lister) belongs to every successfully opened handle.  Mechanisms are CONSTANTS so that
   the ablation runs show each invariant can fail. *)
EXTENDS Integers, Sequences, FiniteSets, TLC

CONSTANTS MaxOps,          \* bound on the number of requests of a session
          MaxOpen,         \* bound on simultaneously open handles
          MonotonicHandles,\* handle strings come from a counter that only grows
          CloseDeletes,    \* close removes the handle from the table before closing the object
          DropFailedOpen,  \* a failed open leaves no handle behind
          SweepOnExit,     \* Serve closes what is still open when the connection ends
          TErrOnlyOpen     \* the transfer-error notification goes exactly to objects still open

VARIABLES counter,   \* handle counter (number of handle strings generated so far)
          issued,    \* sequence of handle strings (numbers) returned in HANDLE replies
          valid,     \* set of handles currently in the table
          hasObj,    \* handles that own an object
          closeCnt,  \* handle -> number of Close calls on its object
          terrCnt,   \* handle -> number of TransferError notifications
          ctxDone,   \* handle -> context cancelled
          openAtEnd, \* handles that were valid when the connection ended
          phase,     \* "serving" | "ended" | "returned"
          nops,
          last       \* outcome of the last request: "ok" | "fail" | "none"

vars == <<counter, issued, valid, hasObj, closeCnt, terrCnt, ctxDone, openAtEnd, phase, nops, last>>

Handle == 1..(MaxOps + 1)

Init ==
  /\ counter = 0 /\ issued = <<>> /\ valid = {} /\ hasObj = {}
  /\ closeCnt = [h \in Handle |-> 0] /\ terrCnt = [h \in Handle |-> 0] /\ ctxDone = [h \in Handle |-> FALSE]
  /\ openAtEnd = {} /\ phase = "serving" /\ nops = 0 /\ last = "none"

NewHandle == IF MonotonicHandles THEN counter + 1
             ELSE IF valid = {} THEN 1 ELSE CHOOSE h \in Handle : h \notin valid /\ \A g \in Handle : g < h => g \in valid

Serving == phase = "serving" /\ nops < MaxOps

(* OPEN / OPENDIR that succeeds: a new handle with an object *)
OpenOkH(h) ==
  /\ Serving /\ Cardinality(valid) < MaxOpen
  /\ /\ counter' = counter + 1
     /\ issued' = Append(issued, h)
     /\ valid' = valid \cup {h}
     /\ hasObj' = hasObj \cup {h}
  /\ nops' = nops + 1 /\ last' = "ok"
  /\ UNCHANGED <<closeCnt, terrCnt, ctxDone, openAtEnd, phase>>

OpenOk == OpenOkH(NewHandle)

(* OPEN / OPENDIR that fails.  allocFirst: the RequestServer allocates the handle before it calls the
   handler and drops it again (its context is cancelled); the os-backed Server allocates nothing. *)
OpenFail(allocFirst) ==
  /\ Serving
  /\ LET h == NewHandle IN
     IF allocFirst
       THEN /\ counter' = counter + 1
            /\ valid' = IF DropFailedOpen THEN valid ELSE valid \cup {h}
            /\ ctxDone' = IF DropFailedOpen THEN [ctxDone EXCEPT ![h] = TRUE] ELSE ctxDone
       ELSE UNCHANGED <<counter, valid, ctxDone>>
  /\ nops' = nops + 1 /\ last' = "fail"
  /\ UNCHANGED <<issued, hasObj, closeCnt, terrCnt, openAtEnd, phase>>

(* a request that names a handle (READ, WRITE, FSTAT, FSETSTAT, READDIR): succeeds iff the handle is in the table *)
Use(h) ==
  /\ Serving
  /\ last' = IF h \in valid THEN "ok" ELSE "fail"
  /\ nops' = nops + 1
  /\ UNCHANGED <<counter, issued, valid, hasObj, closeCnt, terrCnt, ctxDone, openAtEnd, phase>>

(* CLOSE.  objFails: the object's own Close reports an error (a handler's reader/writer/lister may); the reply is
   then a failure status, but the handle has left the table and the object has been closed all the same *)
Close(h, objFails) ==
  /\ Serving
  /\ IF h \in valid
       THEN /\ valid' = IF CloseDeletes THEN valid \ {h} ELSE valid
            /\ closeCnt' = IF h \in hasObj THEN [closeCnt EXCEPT ![h] = @ + 1] ELSE closeCnt
            /\ ctxDone' = [ctxDone EXCEPT ![h] = TRUE]
            /\ last' = IF objFails /\ h \in hasObj THEN "fail" ELSE "ok"
       ELSE /\ UNCHANGED <<valid, closeCnt, ctxDone>>
            /\ last' = "fail"
  /\ nops' = nops + 1
  /\ UNCHANGED <<counter, issued, hasObj, terrCnt, openAtEnd, phase>>

(* the connection ends: clean EOF between packets, EOF in the middle of a packet, or a transport error *)
ConnEnd ==
  /\ phase = "serving"
  /\ phase' = "ended"
  /\ openAtEnd' = valid
  /\ UNCHANGED <<counter, issued, valid, hasObj, closeCnt, terrCnt, ctxDone, nops, last>>

(* end-of-Serve sweep, then Serve returns *)
Sweep ==
  /\ phase = "ended"
  /\ phase' = "returned"
  /\ IF SweepOnExit
       THEN /\ closeCnt' = [h \in Handle |-> IF h \in valid /\ h \in hasObj THEN closeCnt[h] + 1 ELSE closeCnt[h]]
            /\ terrCnt'  = [h \in Handle |-> IF h \in hasObj /\ (h \in valid \/ ~TErrOnlyOpen) THEN terrCnt[h] + 1 ELSE terrCnt[h]]
            /\ ctxDone'  = [h \in Handle |-> ctxDone[h] \/ h \in valid]
            /\ valid' = {}
       ELSE UNCHANGED <<closeCnt, terrCnt, ctxDone, valid>>
  /\ UNCHANGED <<counter, issued, hasObj, openAtEnd, nops, last>>

Done == phase = "returned" /\ UNCHANGED vars

Next ==
  \/ OpenOk \/ OpenFail(TRUE) \/ OpenFail(FALSE)
  \/ \E h \in Handle : Use(h) \/ Close(h, FALSE) \/ Close(h, TRUE)
  \/ ConnEnd \/ Sweep \/ Done

Spec == Init /\ [][Next]_vars

(* ------------------------------------------------------------------ properties (C11) *)

Inv_C11_Unique == \A i, j \in 1..Len(issued) : i # j => issued[i] # issued[j]

(* only handles that were issued in a HANDLE reply are in the table (a failed open leaves nothing behind) *)
Inv_C11_StaleNotValid == \A h \in valid : \E i \in 1..Len(issued) : issued[i] = h

Inv_C11_ClosedOnce == phase = "returned" => \A h \in hasObj : closeCnt[h] = 1

Inv_C11_NeverTwice == \A h \in Handle : closeCnt[h] <= 1 /\ terrCnt[h] <= 1

Inv_C11_TErrExactlyOpen ==
  phase = "returned" => \A h \in hasObj : terrCnt[h] = (IF h \in openAtEnd THEN 1 ELSE 0)

Inv_C11_CtxCancelled == phase = "returned" => \A h \in hasObj : ctxDone[h]

=============================================================================
