SPECIFICATION Spec
CONSTANTS
  Callers = {1, 2, 3, 4}
  Writers = {1, 2}
  NWorkers = 2
  ReplyAfterHandler = TRUE
  OwnBuffer = TRUE
  RouteById = FALSE
INVARIANT Inv_C15_Linearizable
CHECK_DEADLOCK FALSE
