SPECIFICATION Spec
CONSTANTS
  MaxN = 8
  Bs = {1, 2, 3}
  IncByReturned = TRUE
  StatusOnlyWhenEmpty = TRUE
INVARIANTS Inv_C16_Exact Inv_C16_NoDuplicate
PROPERTIES Live_C16_Terminates
CHECK_DEADLOCK TRUE
