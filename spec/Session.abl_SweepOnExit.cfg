SPECIFICATION Spec
CONSTANTS
  MaxOps = 6
  MaxOpen = 3
  MonotonicHandles = TRUE
  CloseDeletes = TRUE
  DropFailedOpen = TRUE
  SweepOnExit = FALSE
  TErrOnlyOpen = TRUE
INVARIANTS Inv_C11_ClosedOnce
CHECK_DEADLOCK TRUE
