SPECIFICATION Spec
CONSTANTS
  MaxN = 8
  Bs = {1, 2, 3}
  IncByReturned = FALSE
  StatusOnlyWhenEmpty = TRUE
INVARIANTS Inv_C16_Exact Inv_C16_NoDuplicate
CHECK_DEADLOCK TRUE
