SPECIFICATION Spec
CONSTANTS
  P = 3
  MaxSize = 12
  MaxCalls = 4
INVARIANTS Inv_OffsetNonNegative
VIEW View
CHECK_DEADLOCK FALSE
