SPECIFICATION Spec
INVARIANTS Inv_WellFormed Inv_C04
CHECK_DEADLOCK FALSE
