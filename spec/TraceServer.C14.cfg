SPECIFICATION Spec
INVARIANTS Inv_WellFormed Inv_C14_NoRWAfterClose Inv_C14_AllSucceed
CHECK_DEADLOCK FALSE
