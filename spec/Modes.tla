-------------------------------- MODULE Modes --------------------------------
(* C17: file type, permission and setuid/setgid/sticky bits between the operating-system form and the wire form
   (stat.go toFileMode / fromFileMode / isRegular, client.go toChmodPerm, filexfer FileMode.String used by the long name).

   A mode is a record [typ, perm, suid, sgid, sticky]; the wire word follows POSIX: S_IFMT = 0170000,
   S_IFIFO 0010000, S_IFCHR 0020000, S_IFDIR 0040000, S_IFBLK 0060000, S_IFREG 0100000, S_IFLNK 0120000,
   S_IFSOCK 0140000, S_ISUID 04000, S_ISGID 02000, S_ISVTX 01000. *)
EXTENDS Integers, Sequences, FiniteSets, TLC

Types == {"reg", "dir", "symlink", "fifo", "socket", "chardev", "blockdev"}
Nibble(t) == CASE t = "fifo" -> 1 [] t = "chardev" -> 2 [] t = "dir" -> 4 [] t = "blockdev" -> 6
               [] t = "reg" -> 8 [] t = "symlink" -> 10 [] t = "socket" -> 12
TypeOf(nib) == CASE nib = 1 -> "fifo" [] nib = 2 -> "chardev" [] nib = 4 -> "dir" [] nib = 6 -> "blockdev"
                 [] nib = 8 -> "reg" [] nib = 10 -> "symlink" [] nib = 12 -> "socket" [] OTHER -> "other"

Bit(x, b) == (x \div b) % 2 = 1
B(v, w) == IF v THEN w ELSE 0

Mode(t, p, su, sg, st) == [typ |-> t, perm |-> p, suid |-> su, sgid |-> sg, sticky |-> st]
Modes == {Mode(t, p, su, sg, st) : t \in Types, p \in 0..511, su \in BOOLEAN, sg \in BOOLEAN, st \in BOOLEAN}

ToWire(m) == Nibble(m.typ) * 4096 + B(m.suid, 2048) + B(m.sgid, 1024) + B(m.sticky, 512) + m.perm
FromWire(w) == Mode(TypeOf((w \div 4096) % 16), w % 512, Bit(w, 2048), Bit(w, 1024), Bit(w, 512))
ChmodPerm(m) == B(m.suid, 2048) + B(m.sgid, 1024) + B(m.sticky, 512) + m.perm
IsRegularWire(w) == (w \div 4096) % 16 = 8

(* the ten characters of the long-name mode string *)
TypeLetter(t) == CASE t = "reg" -> "-" [] t = "dir" -> "d" [] t = "symlink" -> "l" [] t = "fifo" -> "p" [] t = "socket" -> "s"
                   [] t = "chardev" -> "c" [] t = "blockdev" -> "b" [] OTHER -> "?"
RW(p, rb, wb) == (IF Bit(p, rb) THEN "r" ELSE "-") \o (IF Bit(p, wb) THEN "w" ELSE "-")
X(p, xb, special, lower, upper) == IF special THEN (IF Bit(p, xb) THEN lower ELSE upper) ELSE (IF Bit(p, xb) THEN "x" ELSE "-")
LongPerm(m) == TypeLetter(m.typ) \o RW(m.perm, 256, 128) \o X(m.perm, 64, m.suid, "s", "S")
                                 \o RW(m.perm, 32, 16)  \o X(m.perm, 8, m.sgid, "s", "S")
                                 \o RW(m.perm, 4, 2)    \o X(m.perm, 1, m.sticky, "t", "T")

(* which attribute groups a set-attributes request with flag word f changes (SSH_FILEXFER_ATTR_SIZE 1, UIDGID 2, PERMISSIONS 4, ACMODTIME 8) *)
SetstatEffect(f) == [size |-> Bit(f, 1), owner |-> Bit(f, 2), perm |-> Bit(f, 4), times |-> Bit(f, 8)]
=============================================================================
