SPECIFICATION Spec
CONSTANTS
  MaxSize = 4
  MaxLen = 5
  Ps = {2}
  Concs = {1, 2}
  MaxBad = 2
  Modes = {"read", "write", "writeTo"}
  ReduceLowest = TRUE
  OffsetOnData = FALSE
INVARIANTS Inv_C12_WriteToOffset
CHECK_DEADLOCK TRUE
