SPECIFICATION Spec
CONSTANTS
  MaxAvail = 12
  Declared = {0, 1, 2, 5, 6, 7, 9}
  Limit = 6
  CheckBeforeBody = FALSE
INVARIANTS Inv_C08_RefuseBeforeBody
CHECK_DEADLOCK TRUE
