----------------------------- MODULE ClientConn -----------------------------
(* Implementation-shaped model of the client connection multiplexer (conn.go, client.go:230-293, 316):

     caller goroutines       nextID (atomic add), putChannel, conn.sendPacket (header write + payload
                             write under the conn mutex), wait on the own result channel (capacity 1)
     recv goroutine          recvPacket, getChannel (lookup + delete), deliver; on error: close the writer,
                             broadcastErr (deliver ConnectionLost to every in-flight channel exactly once,
                             hijack the channel, close `closed`)
     peer                    answers the requests it has completely received, in ANY order; the
                             server->client stream may end (or error) at any moment (RdFail), and
                             client->server writes may start failing at any moment (WrFail)

   One action per critical section.  Mechanisms are CONSTANTS (ablations show the invariants can fail):
     AtomicNextId, SendLock, DeleteOnGet, HijackOnBroadcast, RefuseAfterClosed, SendErrDelivered,
     ChanCap1, KeepSlotOnCancel (context cancellation: clientConn.sendPacket's select on ctx.Done())   *)
EXTENDS Integers, Sequences, FiniteSets, TLC

CONSTANTS Callers,            \* set of caller goroutines (one request each)
          TwoWrites,          \* callers whose packet is written as header + payload (WRITE, OPEN, SETSTAT ...)
          AtomicNextId, SendLock, DeleteOnGet, HijackOnBroadcast, RefuseAfterClosed, SendErrDelivered,
          AllowRdFail, AllowWrFail,
          AllowCancel,        \* callers may give up waiting (context cancelled) while their request is outstanding
          ChanCap1,           \* result channels have capacity >= 1 (sendPacket replaces an unbuffered channel)
          AtomicPutCheck,     \* putChannel looks at `closed` and registers under ONE hold of the inflight mutex
          CloseStopsWrites,   \* the transport's Close makes later writes fail (FALSE: a half-open link / a no-op Close)
          SendErrToRegistered,\* a failed write is reported on the channel taken back from `inflight` (after broadcastErr: the throw-away
                              \* channel), not on the caller's own channel, which may already hold the broadcast result
          KeepSlotOnCancel    \* a cancelled call leaves its in-flight slot registered until the reply arrives

VARIABLES pc,        \* caller -> "start"|"gotid"|"registered"|"hdr"|"sent"|"done"
          tmpid,     \* caller -> value read from nextid (non-atomic ablation)
          id,        \* caller -> request id
          nextid,
          inflight,  \* id -> channel (channels are named by their owner, or "dummy")
          chanBuf,   \* caller -> sequence of results buffered in the caller's channel (capacity 1)
          result,    \* caller -> what the call returned ("none" before)
          delivered, \* caller -> number of results ever sent to the caller's channel
          wlock,     \* holder of the conn write mutex (or "free")
          wire,      \* client->server stream: sequence of <<caller, "hdr"|"payload"|"whole">>
          srvSeen,   \* ids the peer has completely received and not yet answered
          s2c,       \* server->client stream: sequence of ids being answered
          rd,        \* "ok" | "failed"
          wr,        \* "ok" | "failed"
          recvPc,    \* "run" | "closing" | "bcast" | "done"
          closed,    \* the closed channel of the conn
          bcastTodo  \* ids still to be notified by broadcastErr (it iterates under the lock)

vars == <<pc, tmpid, id, nextid, inflight, chanBuf, result, delivered, wlock, wire, srvSeen, s2c, rd, wr, recvPc, closed, bcastTodo>>

NoId == 0
R(k, i) == [k |-> k, id |-> i]

Init ==
  /\ pc = [c \in Callers |-> "start"] /\ tmpid = [c \in Callers |-> 0] /\ id = [c \in Callers |-> NoId]
  /\ nextid = 0 /\ inflight = <<>> /\ chanBuf = [c \in Callers |-> <<>>]
  /\ result = [c \in Callers |-> R("none", 0)] /\ delivered = [c \in Callers |-> 0]
  /\ wlock = "free" /\ wire = <<>> /\ srvSeen = {} /\ s2c = <<>>
  /\ rd = "ok" /\ wr = "ok" /\ recvPc = "run" /\ closed = FALSE /\ bcastTodo = {}

Dom(f) == DOMAIN f
Put(f, k, v) == [x \in Dom(f) \cup {k} |-> IF x = k THEN v ELSE f[x]]
Del(f, k) == [x \in Dom(f) \ {k} |-> f[x]]

(* ch <- res : possible only while the buffer (capacity 1) has room *)
CanSend(ch) == IF ch = "dummy" THEN TRUE
               ELSE IF ChanCap1 THEN Len(chanBuf[ch]) < 1
               ELSE Len(chanBuf[ch]) < 1 /\ pc[ch] = "sent"      \* unbuffered (ablation): only a rendezvous with the waiting owner
Send(ch, res) ==
  IF ch = "dummy" THEN UNCHANGED <<chanBuf, delivered>>
  ELSE /\ chanBuf' = [chanBuf EXCEPT ![ch] = Append(@, res)]
       /\ delivered' = [delivered EXCEPT ![ch] = @ + 1]

(* ---- callers ---- *)

(* c.nextID(): atomic.AddUint32 *)
NextIdAtomic(c) ==
  /\ pc[c] = "start" /\ AtomicNextId
  /\ nextid' = nextid + 1 /\ id' = [id EXCEPT ![c] = nextid + 1]
  /\ pc' = [pc EXCEPT ![c] = "gotid"]
  /\ UNCHANGED <<tmpid, inflight, chanBuf, result, delivered, wlock, wire, srvSeen, s2c, rd, wr, recvPc, closed, bcastTodo>>

NextIdRead(c) ==
  /\ pc[c] = "start" /\ ~AtomicNextId
  /\ tmpid' = [tmpid EXCEPT ![c] = nextid]
  /\ pc' = [pc EXCEPT ![c] = "readid"]
  /\ UNCHANGED <<id, nextid, inflight, chanBuf, result, delivered, wlock, wire, srvSeen, s2c, rd, wr, recvPc, closed, bcastTodo>>

NextIdWrite(c) ==
  /\ pc[c] = "readid"
  /\ nextid' = tmpid[c] + 1 /\ id' = [id EXCEPT ![c] = tmpid[c] + 1]
  /\ pc' = [pc EXCEPT ![c] = "gotid"]
  /\ UNCHANGED <<tmpid, inflight, chanBuf, result, delivered, wlock, wire, srvSeen, s2c, rd, wr, recvPc, closed, bcastTodo>>

(* putChannel (under the inflight mutex; broadcastErr holds the same mutex for its whole loop) *)
PutChannel(c) ==
  /\ AtomicPutCheck
  /\ pc[c] = "gotid" /\ recvPc # "bcast"
  /\ IF closed /\ RefuseAfterClosed
       THEN /\ CanSend(c) /\ Send(c, R("connlost", 0))
            /\ pc' = [pc EXCEPT ![c] = "sent"]
            /\ UNCHANGED inflight
       ELSE /\ inflight' = Put(inflight, id[c], c)
            /\ pc' = [pc EXCEPT ![c] = "registered"]
            /\ UNCHANGED <<chanBuf, delivered>>
  /\ UNCHANGED <<tmpid, id, nextid, result, wlock, wire, srvSeen, s2c, rd, wr, recvPc, closed, bcastTodo>>

(* ablation ~AtomicPutCheck: the look at `closed` happens before the mutex is taken, the registration under it *)
PutCheck(c) ==
  /\ ~AtomicPutCheck
  /\ pc[c] = "gotid"
  /\ IF closed /\ RefuseAfterClosed
       THEN /\ CanSend(c) /\ Send(c, R("connlost", 0))
            /\ pc' = [pc EXCEPT ![c] = "sent"]
       ELSE /\ pc' = [pc EXCEPT ![c] = "checked"]
            /\ UNCHANGED <<chanBuf, delivered>>
  /\ UNCHANGED <<tmpid, id, nextid, inflight, result, wlock, wire, srvSeen, s2c, rd, wr, recvPc, closed, bcastTodo>>

PutRegister(c) ==
  /\ pc[c] = "checked" /\ recvPc # "bcast"
  /\ inflight' = Put(inflight, id[c], c)
  /\ pc' = [pc EXCEPT ![c] = "registered"]
  /\ UNCHANGED <<tmpid, id, nextid, chanBuf, delivered, result, wlock, wire, srvSeen, s2c, rd, wr, recvPc, closed, bcastTodo>>

(* conn.sendPacket: Lock; Write(header); [Write(payload)]; Unlock *)
SendHdr(c) ==
  /\ pc[c] = "registered" /\ wr = "ok"
  /\ SendLock => wlock = "free"
  /\ wlock' = IF SendLock THEN c ELSE wlock
  /\ wire' = Append(wire, <<c, IF c \in TwoWrites THEN "hdr" ELSE "whole">>)
  /\ pc' = [pc EXCEPT ![c] = IF c \in TwoWrites THEN "hdr" ELSE "unlock"]
  /\ UNCHANGED <<tmpid, id, nextid, inflight, chanBuf, result, delivered, srvSeen, s2c, rd, wr, recvPc, closed, bcastTodo>>

SendPayload(c) ==
  /\ pc[c] = "hdr" /\ wr = "ok"
  /\ wire' = Append(wire, <<c, "payload">>)
  /\ pc' = [pc EXCEPT ![c] = "unlock"]
  /\ UNCHANGED <<tmpid, id, nextid, inflight, chanBuf, result, delivered, wlock, srvSeen, s2c, rd, wr, recvPc, closed, bcastTodo>>

Unlock(c) ==
  /\ pc[c] = "unlock"
  /\ wlock' = IF wlock = c THEN "free" ELSE wlock
  /\ srvSeen' = srvSeen \cup {id[c]}       \* the peer has now received the complete packet
  /\ pc' = [pc EXCEPT ![c] = "sent"]
  /\ UNCHANGED <<tmpid, id, nextid, inflight, chanBuf, result, delivered, wire, s2c, rd, wr, recvPc, closed, bcastTodo>>

(* a write fails: dispatchRequest takes the channel back (getChannel) and delivers the error itself *)
SendFails(c) ==
  /\ pc[c] \in {"registered", "hdr"} /\ wr = "failed"
  /\ pc[c] = "registered" /\ SendLock => wlock \in {"free"}
  /\ wlock' = IF wlock = c THEN "free" ELSE wlock
  /\ recvPc # "bcast"                       \* getChannel needs the inflight mutex
  /\ IF id[c] \in Dom(inflight)
       THEN LET ch == IF SendErrToRegistered THEN inflight[id[c]] ELSE c IN
            /\ inflight' = IF DeleteOnGet THEN Del(inflight, id[c]) ELSE inflight
            /\ IF SendErrDelivered
                 THEN CanSend(ch) /\ Send(ch, R("senderr", 0))
                 ELSE UNCHANGED <<chanBuf, delivered>>
       ELSE UNCHANGED <<inflight, chanBuf, delivered>>
  /\ pc' = [pc EXCEPT ![c] = "sent"]
  /\ UNCHANGED <<tmpid, id, nextid, result, wire, srvSeen, s2c, rd, wr, recvPc, closed, bcastTodo>>

(* s := <-ch *)
Wait(c) ==
  /\ pc[c] = "sent" /\ chanBuf[c] # <<>>
  /\ result' = [result EXCEPT ![c] = Head(chanBuf[c])]
  /\ chanBuf' = [chanBuf EXCEPT ![c] = Tail(@)]
  /\ pc' = [pc EXCEPT ![c] = "done"]
  /\ UNCHANGED <<tmpid, id, nextid, inflight, delivered, wlock, wire, srvSeen, s2c, rd, wr, recvPc, closed, bcastTodo>>

(* case <-ctx.Done(): the caller stops waiting; its slot stays in `inflight` (the reply, when it comes, is dropped into
   the buffered channel nobody reads any more) *)
Cancel(c) ==
  /\ AllowCancel /\ pc[c] = "sent" /\ result[c].k = "none"
  /\ result' = [result EXCEPT ![c] = R("ctx", 0)]
  /\ pc' = [pc EXCEPT ![c] = "done"]
  /\ recvPc # "bcast" \/ KeepSlotOnCancel
  /\ inflight' = IF ~KeepSlotOnCancel /\ id[c] \in Dom(inflight) /\ inflight[id[c]] = c THEN Del(inflight, id[c]) ELSE inflight
  /\ UNCHANGED <<tmpid, id, nextid, chanBuf, delivered, wlock, wire, srvSeen, s2c, rd, wr, recvPc, closed, bcastTodo>>

(* ---- peer ---- *)

SrvReply(i) ==
  /\ i \in srvSeen /\ rd = "ok"
  /\ s2c' = Append(s2c, i) /\ srvSeen' = srvSeen \ {i}
  /\ UNCHANGED <<pc, tmpid, id, nextid, inflight, chanBuf, result, delivered, wlock, wire, rd, wr, recvPc, closed, bcastTodo>>

RdFail ==
  /\ AllowRdFail /\ rd = "ok" /\ rd' = "failed"
  /\ UNCHANGED <<pc, tmpid, id, nextid, inflight, chanBuf, result, delivered, wlock, wire, srvSeen, s2c, wr, recvPc, closed, bcastTodo>>

WrFail ==
  /\ AllowWrFail /\ wr = "ok" /\ wr' = "failed"
  /\ UNCHANGED <<pc, tmpid, id, nextid, inflight, chanBuf, result, delivered, wlock, wire, srvSeen, s2c, rd, recvPc, closed, bcastTodo>>

(* ---- recv goroutine ---- *)

(* one complete reply: getChannel(sid) + `ch <- result` *)
RecvDeliver ==
  /\ recvPc = "run" /\ s2c # <<>>
  /\ LET sid == Head(s2c) IN
     IF sid \in Dom(inflight)
       THEN LET ch == inflight[sid] IN
            /\ CanSend(ch)
            /\ Send(ch, R("reply", sid))
            /\ inflight' = IF DeleteOnGet THEN Del(inflight, sid) ELSE inflight
            /\ s2c' = Tail(s2c)
            /\ UNCHANGED recvPc
       ELSE \* "sid not found": recv returns an error
            /\ recvPc' = "closing" /\ s2c' = Tail(s2c)
            /\ UNCHANGED <<inflight, chanBuf, delivered>>
  /\ UNCHANGED <<pc, tmpid, id, nextid, result, wlock, wire, srvSeen, rd, wr, closed, bcastTodo>>

(* the stream ended or failed: recv returns *)
RecvErr ==
  /\ recvPc = "run" /\ s2c = <<>> /\ rd = "failed"
  /\ recvPc' = "closing"
  /\ UNCHANGED <<pc, tmpid, id, nextid, inflight, chanBuf, result, delivered, wlock, wire, srvSeen, s2c, rd, wr, closed, bcastTodo>>

(* defer c.conn.Close(): needs the conn write mutex; afterwards every write fails *)
RecvCloseWriter ==
  /\ recvPc = "closing" /\ (SendLock => wlock = "free")
  /\ wr' = IF CloseStopsWrites THEN "failed" ELSE wr
  /\ recvPc' = "bcast" /\ bcastTodo' = Dom(inflight)
  /\ UNCHANGED <<pc, tmpid, id, nextid, inflight, chanBuf, result, delivered, wlock, wire, srvSeen, s2c, rd, closed>>

(* broadcastErr, one iteration of its loop (the inflight mutex is held: see PutChannel / SendFails guards) *)
BcastOne ==
  /\ recvPc = "bcast" /\ bcastTodo # {}
  /\ \E sid \in bcastTodo :
       LET ch == inflight[sid] IN
       /\ CanSend(ch) /\ Send(ch, R("connlost", 0))
       /\ inflight' = IF HijackOnBroadcast THEN Put(inflight, sid, "dummy") ELSE inflight
       /\ bcastTodo' = bcastTodo \ {sid}
  /\ UNCHANGED <<pc, tmpid, id, nextid, result, wlock, wire, srvSeen, s2c, rd, wr, recvPc, closed>>

BcastDone ==
  /\ recvPc = "bcast" /\ bcastTodo = {}
  /\ closed' = TRUE /\ recvPc' = "done"
  /\ UNCHANGED <<pc, tmpid, id, nextid, inflight, chanBuf, result, delivered, wlock, wire, srvSeen, s2c, rd, wr, bcastTodo>>

AllDone == \A c \in Callers : pc[c] = "done"
Quiet == AllDone /\ UNCHANGED vars

Next ==
  \/ \E c \in Callers : NextIdAtomic(c) \/ NextIdRead(c) \/ NextIdWrite(c) \/ PutChannel(c) \/ PutCheck(c) \/ PutRegister(c) \/ SendHdr(c) \/ SendPayload(c)
                        \/ Unlock(c) \/ SendFails(c) \/ Wait(c) \/ Cancel(c)
  \/ \E i \in srvSeen : SrvReply(i)
  \/ RdFail \/ WrFail \/ RecvDeliver \/ RecvErr \/ RecvCloseWriter \/ BcastOne \/ BcastDone
  \/ Quiet

Spec == Init /\ [][Next]_vars /\ WF_vars(Next)

(* ------------------------------------------------------------------ properties *)

(* C03: a call that returns a reply got the reply to its own request *)
Inv_C03_OwnReply == \A c \in Callers : result[c].k = "reply" => result[c].id = id[c]

(* C03: ids of requests in flight are pairwise distinct *)
Inv_C03_DistinctIds == \A a, b \in Callers : (a # b /\ id[a] # NoId /\ id[b] # NoId) => id[a] # id[b]

(* C03: every packet reaches the wire contiguously: a header is immediately followed by its own payload *)
Inv_C03_Framing ==
  \A i \in 1..Len(wire) : wire[i][2] = "hdr" => (i = Len(wire) \/ wire[i+1] = <<wire[i][1], "payload">>)

(* C04: each waiting caller is notified at most once (exactly once when it is done) *)
Inv_C04_NotifiedOnce == \A c \in Callers : delivered[c] <= 1

(* C04: a complete reply that was received before the failure is kept: checked as "a caller never gets an
   error after its reply was delivered" - implied by NotifiedOnce + Wait taking the head *)

(* C03 under cancellation: a cancelled call never takes the connection down for the others: the receiver leaves its loop
   only because the transport failed (with DeleteOnGet every id is answered once, so "sid not found" cannot happen) *)
Inv_C03_NoSpuriousTeardown == (DeleteOnGet /\ recvPc # "run") => rd = "failed"

(* C04 liveness: every call returns (TLC deadlock check covers blocked states; this is the fair version) *)
Live_AllReturn == <>AllDone

=============================================================================
