------------------------------ MODULE EndToEnd ------------------------------
(* C15 (design level): a coarse composition of the client connection, the two FIFO byte streams, the server's worker
   pool with its in-order response queue, and one file block.  Each caller issues one single-packet operation
   (write of a unique value, or read).  The model shows that the DESIGN yields only linearizable histories: every
   operation takes effect atomically (Exec) between its call and its return and returns what it saw then.

   The three mechanisms named in the property's anchors are CONSTANTS, so that the ablations show the invariant is not
   vacuous:
     ReplyAfterHandler   a response is produced only after the handler call returned
     OwnBuffer           per-request buffers are not shared between in-flight requests (allocator pages by order id)
     RouteById           the reply is routed to the caller that issued the request                                  *)
EXTENDS Integers, Sequences, FiniteSets, TLC

CONSTANTS Callers, Writers, NWorkers, ReplyAfterHandler, OwnBuffer, RouteById

VARIABLES pc,        \* caller -> "idle" | "called" | "returned"
          file,      \* current value of the block (0 initially; writer c writes value Val(c))
          c2s,       \* requests on the wire (sequence of callers, in send order)
          received,  \* server: requests received, in arrival order (sequence of callers)
          running,   \* server: callers whose handler is executing (at most NWorkers)
          execd,     \* server: callers whose handler has returned
          buf,       \* server: response buffer of a request: caller -> value (OwnBuffer) ...
          shared,    \* ... or one buffer shared by all in-flight requests (ablation)
          sentN,     \* server: number of responses written (responses leave in arrival order)
          s2c,       \* responses on the wire: sequence of [to, val]
          result,    \* caller -> value returned (-1 = none)
          clock,     \* logical time
          tCall, tExec, tRet,   \* history: when each operation was called / took effect / returned
          seen       \* history: the value of the block at the operation's Exec

vars == <<pc, file, c2s, received, running, execd, buf, shared, sentN, s2c, result, clock, tCall, tExec, tRet, seen>>

Val(c) == c          \* Callers are positive integers; writer c writes the value c (distinct, and distinct from the initial 0)
IsWriter(c) == c \in Writers

Init ==
  /\ pc = [c \in Callers |-> "idle"] /\ file = 0 /\ c2s = <<>> /\ received = <<>> /\ running = {} /\ execd = {}
  /\ buf = [c \in Callers |-> -1] /\ shared = -1 /\ sentN = 0 /\ s2c = <<>>
  /\ result = [c \in Callers |-> -1] /\ clock = 0
  /\ tCall = [c \in Callers |-> -1] /\ tExec = [c \in Callers |-> -1] /\ tRet = [c \in Callers |-> -1] /\ seen = [c \in Callers |-> -1]

Tick == clock' = clock + 1

(* the caller registers its channel and writes the request (C03: one contiguous packet) *)
Call(c) ==
  /\ pc[c] = "idle"
  /\ pc' = [pc EXCEPT ![c] = "called"] /\ c2s' = Append(c2s, c) /\ tCall' = [tCall EXCEPT ![c] = clock] /\ Tick
  /\ UNCHANGED <<file, received, running, execd, buf, shared, sentN, s2c, result, tExec, tRet, seen>>

(* the Serve loop reads the next request and hands it to the pool *)
Recv ==
  /\ c2s # <<>> /\ received' = Append(received, Head(c2s)) /\ c2s' = Tail(c2s)
  /\ UNCHANGED <<pc, file, running, execd, buf, shared, sentN, s2c, result, clock, tCall, tExec, tRet, seen>>

InSeq(s, c) == \E i \in 1..Len(s) : s[i] = c

(* a worker takes a received request *)
Start(c) ==
  /\ InSeq(received, c) /\ c \notin running /\ c \notin execd /\ Cardinality(running) < NWorkers
  /\ running' = running \cup {c}
  /\ UNCHANGED <<pc, file, c2s, received, execd, buf, shared, sentN, s2c, result, clock, tCall, tExec, tRet, seen>>

(* the handler call: atomic on the backing store (the property's proviso) *)
Exec(c) ==
  /\ c \in running
  /\ file' = IF IsWriter(c) THEN Val(c) ELSE file
  /\ seen' = [seen EXCEPT ![c] = file] /\ tExec' = [tExec EXCEPT ![c] = clock] /\ Tick
  /\ IF IsWriter(c) THEN UNCHANGED <<buf, shared>>
     ELSE IF OwnBuffer THEN /\ buf' = [buf EXCEPT ![c] = file]
                            /\ UNCHANGED shared
     ELSE shared' = file /\ UNCHANGED buf
  /\ running' = running \ {c} /\ execd' = execd \cup {c}
  /\ UNCHANGED <<pc, c2s, received, sentN, s2c, result, tCall, tRet>>

(* the controller writes the next response in arrival order, from the request's buffer *)
Send ==
  /\ sentN < Len(received)
  \* ablation ~ReplyAfterHandler: the response may leave while the handler is still running
  /\ (received[sentN + 1] \in execd \/ (~ReplyAfterHandler /\ received[sentN + 1] \in running))
  /\ LET c == received[sentN + 1]
         v == IF IsWriter(c) THEN 0 ELSE (IF OwnBuffer THEN buf[c] ELSE shared) IN
     s2c' = Append(s2c, [to |-> c, val |-> v])
  /\ sentN' = sentN + 1
  /\ UNCHANGED <<pc, file, c2s, received, running, execd, buf, shared, result, clock, tCall, tExec, tRet, seen>>

(* the client's recv goroutine dispatches the reply; ablation ~RouteById: it goes to any waiting caller *)
Deliver(c) ==
  /\ s2c # <<>> /\ pc[c] = "called"
  /\ (RouteById => Head(s2c).to = c)
  /\ result' = [result EXCEPT ![c] = Head(s2c).val] /\ s2c' = Tail(s2c)
  /\ pc' = [pc EXCEPT ![c] = "returned"] /\ tRet' = [tRet EXCEPT ![c] = clock] /\ Tick
  /\ UNCHANGED <<file, c2s, received, running, execd, buf, shared, sentN, seen, tCall, tExec>>

Done == (\A c \in Callers : pc[c] = "returned") /\ UNCHANGED vars

Next == (\E c \in Callers : Call(c) \/ Start(c) \/ Exec(c) \/ Deliver(c)) \/ Recv \/ Send \/ Done
Spec == Init /\ [][Next]_vars /\ WF_vars(Next)

(* linearizability, witnessed by the Exec points (a SUFFICIENT condition: if it holds in every reachable state the
   design is linearizable with the handler calls as linearization points; the ablations violate the witness, which
   shows the invariant is not vacuous - it does not by itself show every ablated history is unexplainable; that
   judgement on real histories is LinFile.tla's search): each completed operation took effect between its call and its return,
   and a read returned exactly what the block held at that instant *)
Inv_C15_Linearizable ==
  \A c \in Callers : pc[c] = "returned" =>
     /\ tCall[c] <= tExec[c] /\ tExec[c] <= tRet[c] /\ tExec[c] >= 0
     /\ (~IsWriter(c) => result[c] = seen[c])
Live_AllReturn == <>(\A c \in Callers : pc[c] = "returned")
=============================================================================
