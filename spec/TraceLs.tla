------------------------------- MODULE TraceLs -------------------------------
(* Trace validation for C16: the multiset of entries Client.ReadDir returned against the directory's content
   (names in hex; '.' and '..' excluded from the expectation), the attributes, termination and the error. *)
EXTENDS Integers, Sequences, FiniteSets, TLC, Json
Trace == ndJsonDeserialize("trace.ndjson")
VARIABLES l, bad, c16
vars == <<l, bad, c16>>
Init == l = 1 /\ bad = "" /\ c16 = ""
Set(v, cond, msg) == IF cond /\ v = "" THEN msg ELSE v
ToSet(s) == {s[i] : i \in 1..Len(s)}
Count(x, s) == Cardinality({i \in 1..Len(s) : s[i] = x})
SameBag(a, b) == Len(a) = Len(b) /\ \A x \in ToSet(a) \cup ToSet(b) : Count(x, a) = Count(x, b)

Step(e) ==
  CASE e.ev = "Reset" -> c16' = "" /\ UNCHANGED bad
    [] e.ev = "LsResult" ->
         /\ c16' = Set(c16, ~e.returned \/ e.err # "" \/ ~SameBag(e.got, e.want) \/ ~e.attrsok,
                       IF ~e.returned THEN "the listing did not terminate"
                       ELSE IF e.err # "" THEN "the listing failed"
                       ELSE IF ~SameBag(e.got, e.want) THEN
                            (IF \E x \in ToSet(e.got) : Count(x, e.got) > Count(x, e.want) THEN "an entry was returned that is duplicated or not in the directory"
                             ELSE "an entry of the directory was lost")
                       ELSE "an entry was returned with attributes other than the server reported")
         /\ UNCHANGED bad
    [] e.ev \in {"Req", "Resp", "Setup", "ServeRet", "ConnClose", "PmFini", "Note", "Handler", "ObjOpen", "ObjClose", "OpBegin", "OpEnd", "ObjFinal", "ObjTErr"} -> UNCHANGED <<bad, c16>>
    [] OTHER -> bad' = "unknown event" /\ UNCHANGED c16
Next == l <= Len(Trace) /\ Step(Trace[l]) /\ l' = l + 1
Spec == Init /\ [][Next]_vars
Inv_WellFormed == bad = ""
Inv_C16 == c16 = ""
=============================================================================
