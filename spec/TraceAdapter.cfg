SPECIFICATION Spec
INVARIANTS Inv_WellFormed Inv_C10
CHECK_DEADLOCK FALSE
