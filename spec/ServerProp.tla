---------------------------- MODULE ServerProp ----------------------------
(* Property-level vocabulary for one server connection (Server or RequestServer).

   This module contains NO implementation choices.  It defines, over an observable
   history (requests in arrival order, responses in emission order, handler/file
   operations, allocator page events), the formulas that the listed properties
   C02, C07, C14 and C18 require.  It is used twice:
     - PktMgr.tla (implementation-shaped model): TLC checks the formulas on every
       reachable state of the model, for every schedule;
     - TraceServer.tla: TLC evaluates the same formulas on traces recorded from the
       real code.                                                                  *)
EXTENDS Integers, Sequences, FiniteSets

(* ---- request / response types (SFTP v3 draft-02 + OpenSSH extensions) ---- *)

ReqTypes == {"INIT","OPEN","CLOSE","READ","WRITE","LSTAT","FSTAT","SETSTAT","FSETSTAT",
             "OPENDIR","READDIR","REMOVE","MKDIR","RMDIR","REALPATH","STAT","RENAME",
             "READLINK","SYMLINK","EXTENDED"}

(* Legal response types per request type. *)
Legal(t) ==
  CASE t = "INIT"     -> {"VERSION"}
    [] t \in {"OPEN","OPENDIR"}                    -> {"HANDLE","STATUS"}
    [] t = "READ"                                  -> {"DATA","STATUS"}
    [] t \in {"READDIR","REALPATH","READLINK"}     -> {"NAME","STATUS"}
    [] t \in {"LSTAT","FSTAT","STAT"}              -> {"ATTRS","STATUS"}
    [] t \in {"CLOSE","WRITE","SETSTAT","FSETSTAT","REMOVE","MKDIR","RMDIR","RENAME","SYMLINK"} -> {"STATUS"}
    [] t = "EXTENDED"                              -> {"STATUS","EXTENDED_REPLY"}
    [] OTHER                                       -> {}

(* ---- C02: every request answered once, with its id, in arrival order ------------
   reqs  : sequence of records [id, typ, ...] of the WELL-FORMED requests, arrival order
   resps : sequence of records [id, typ, ...] in the order the server wrote them       *)

C02_Order(reqs, resps) ==
  /\ Len(resps) <= Len(reqs)
  /\ \A i \in 1..Len(resps) : resps[i].id = reqs[i].id

C02_LegalType(reqs, resps) ==
  \A i \in 1..Len(resps) : i <= Len(reqs) => resps[i].typ \in Legal(reqs[i].typ)

(* the i-th response answers the i-th request: where the harness knows what data a READ must return
   (sig = first byte of the region read, -1 = unknown), a DATA reply carries exactly that *)
C02_OwnPayload(reqs, resps) ==
  \A i \in 1..Len(resps) :
     (i <= Len(reqs) /\ reqs[i].sig >= 0 /\ resps[i].typ = "DATA") => resps[i].sig = reqs[i].sig

(* at quiescence (the harness waited for the server to become idle, or Serve returned after a
   clean EOF with the write side still open): nothing is missing *)
C02_AllAnswered(reqs, resps) == Len(resps) = Len(reqs)

(* ---- C14: close waits for earlier reads/writes on the handle ----------------------
   pre   : the reads/writes on the handle whose requests arrived before its close request
   ended : the read/write handler executions that have returned
   At the moment the underlying object is closed, every one of `pre` has ended.          *)

C14_CloseQuiet(pre, ended) == pre \subseteq ended

(* ---- C18: allocator invisible -------------------------------------------------------
   holder : page -> set of orders that logically own the page (obtained it and whose
            response has not been written yet)                                          *)

C18_Exclusive(holder) == \A p \in DOMAIN holder : Cardinality(holder[p]) <= 1

=============================================================================
