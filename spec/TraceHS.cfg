SPECIFICATION TSpec
INVARIANTS Inv_WellFormed Inv_C19
CHECK_DEADLOCK FALSE
