SPECIFICATION Spec
CONSTANTS
  P = 3
  MaxSize = 12
  MaxCalls = 5
INVARIANTS Inv_OffsetNonNegative Export
CHECK_DEADLOCK FALSE
