------------------------------ MODULE FileSeq ------------------------------
(* The sequential state machine of a File's implicit offset and closed state (C12), built from the FileProp
   formulas: which offset every method leaves behind, and that nothing changes after Close.  TLC explores it
   exhaustively over boundary arguments and - in simulation mode - exports call sequences for replay on the
   real File (spec/FileSeqScen.cfg). *)
EXTENDS FileProp, Json

CONSTANTS P, MaxSize, MaxCalls

VARIABLES size, offset, closed, ncalls, sched

vars == <<size, offset, closed, ncalls, sched>>

Lens == {0, 1, P - 1, P, P + 1, 2 * P + 1}
Offs == {0, 1, P, 2 * P} \cup {size - 1, size, size + 1}
SeekOffs == {0, 1, -1, P, -P, size, -size, size + 1, -size - 1}

Init == size \in {0, 1, P - 1, P, P + 1, 3 * P + 1} /\ offset = 0 /\ closed = FALSE /\ ncalls = 0
        /\ sched = <<[api |-> "init", off |-> size, len |-> 0, whence |-> 0]>>

Tag(a, o, n, w) == sched' = Append(sched, [api |-> a, off |-> o, len |-> n, whence |-> w])
Can == ncalls < MaxCalls /\ ncalls' = ncalls + 1
NewSize(o, n) == IF n = 0 THEN size ELSE Max2(size, o + n)

Call ==
  \/ \E n \in Lens : Can /\ Tag("Read", 0, n, 0) /\ (IF closed THEN UNCHANGED offset ELSE offset' = offset + Max2(0, Min2(n, size - offset)))
                     /\ UNCHANGED <<size, closed>>
  \/ \E o \in Offs, n \in Lens : o >= 0 /\ Can /\ Tag("ReadAt", o, n, 0) /\ UNCHANGED <<size, offset, closed>>
  \/ Can /\ Tag("WriteTo", 0, 0, 0) /\ (IF closed THEN UNCHANGED offset ELSE offset' = Max2(offset, size)) /\ UNCHANGED <<size, closed>>
  \/ \E n \in Lens : Can /\ Tag("Write", 0, n, 0) /\ (IF closed THEN UNCHANGED <<offset, size>> ELSE offset' = offset + n /\ size' = NewSize(offset, n))
                     /\ UNCHANGED closed
  \/ \E o \in Offs, n \in Lens : o >= 0 /\ Can /\ Tag("WriteAt", o, n, 0) /\ (IF closed THEN UNCHANGED size ELSE size' = NewSize(o, n))
                     /\ UNCHANGED <<offset, closed>>
  \/ \E n \in Lens : Can /\ Tag("ReadFrom", 0, n, 0) /\ (IF closed THEN UNCHANGED <<offset, size>> ELSE offset' = offset + n /\ size' = NewSize(offset, n))
                     /\ UNCHANGED closed
  \/ \E o \in SeekOffs, w \in {0, 1, 2, 3} : Can /\ Tag("Seek", o, 0, w)
                     /\ (IF closed THEN UNCHANGED offset ELSE offset' = SeekResult(offset, size, o, w).pos) /\ UNCHANGED <<size, closed>>
  \/ Can /\ Tag("Stat", 0, 0, 0) /\ UNCHANGED <<size, offset, closed>>
  \/ \E n \in Lens : Can /\ Tag("Truncate", 0, n, 0) /\ (IF closed THEN UNCHANGED size ELSE size' = n) /\ UNCHANGED <<offset, closed>>
  \/ Can /\ Tag("Close", 0, 0, 0) /\ closed' = TRUE /\ UNCHANGED <<size, offset>>

Next == Call
Spec == Init /\ [][Next]_vars

Inv_OffsetNonNegative == offset >= 0
Export == ncalls = MaxCalls => PrintT(<<"SCEN", ToJson(sched)>>)
View == <<size, offset, closed, ncalls>>
=============================================================================
