------------------------------ MODULE TraceModes ------------------------------
(* Trace validation for C17: the Go conversion functions evaluated on their full domains (65536 wire words, 28672 os modes)
   and the attributes of real files of every kind the host can create, against Modes.tla. *)
EXTENDS Modes, Json
Trace == ndJsonDeserialize("trace.ndjson")
VARIABLES l, bad, c17
vars == <<l, bad, c17>>
Init == l = 1 /\ bad = "" /\ c17 = ""
Set(v, cond, msg) == IF cond /\ v = "" THEN msg ELSE v
Rec(e) == Mode(e.typ, e.perm, e.suid, e.sgid, e.sticky)

Step(e) ==
  CASE e.ev = "Reset" -> c17' = "" /\ UNCHANGED bad
    [] e.ev = "W" ->     \* toFileMode(w) decoded into a record, isRegular(w), and the mode string of w
         LET want == FromWire(e.w) IN
         /\ c17' = Set(c17, (want.typ # "other" /\ Rec(e) # want)
                              \/ (want.typ = "other" /\ (e.perm # want.perm \/ e.suid # want.suid \/ e.sgid # want.sgid \/ e.sticky # want.sticky))
                              \/ e.isreg # IsRegularWire(e.w)
                              \/ (want.typ # "other" /\ e.str # LongPerm(want)),
                       IF e.isreg # IsRegularWire(e.w) THEN "isRegular disagrees with the type bits of the wire word"
                       ELSE IF want.typ # "other" /\ Rec(e) = want THEN "the mode string of the long name disagrees with the mode"
                       ELSE "wire mode word converted to a different os mode (type, permission or special bit lost)")
         /\ UNCHANGED bad
    [] e.ev = "M" ->     \* fromFileMode(m), toChmodPerm(m), and toFileMode(fromFileMode(m)) for an os mode built from a record
         /\ c17' = Set(c17, e.w # ToWire(Rec(e)) \/ e.chmod # ChmodPerm(Rec(e)) \/ ~e.back,
                       IF e.w # ToWire(Rec(e)) THEN "os mode converted to a different wire word"
                       ELSE IF ~e.back THEN "os mode does not survive the round trip through the wire form"
                       ELSE "toChmodPerm does not yield permission + setuid/setgid/sticky bits")
         /\ UNCHANGED bad
    [] e.ev = "FsStat" ->  \* Client.Stat / Lstat / ReadDir of a served file against os.Lstat
         /\ c17' = Set(c17, ~(e.size /\ e.mode /\ e.mtime /\ e.owner) \/ ~e.longok,
                       IF ~e.longok THEN "the long name of a listed entry disagrees with its structured attributes"
                       ELSE "size, mode, modification time or owner reported for a served file differ from the file system")
         /\ UNCHANGED bad
    [] e.ev = "Setstat" -> \* a set-attributes request with flag word f: which attribute groups changed, and to the requested values
         LET eff == SetstatEffect(e.flags) IN
         /\ c17' = Set(c17, e.status # 0 \/ e.chsize # eff.size \/ e.chperm # eff.perm \/ e.chowner # eff.owner \/ e.chtimes # eff.times \/ ~e.values,
                       IF e.status # 0 THEN "a valid set-attributes request failed"
                       ELSE IF ~e.values THEN "an attribute was not set to the requested value"
                       ELSE "a set-attributes request changed an attribute whose flag it does not carry, or left one it carries")
         /\ UNCHANGED bad
    [] e.ev = "LongName" -> \* the long name of a listed entry against the structured attributes sent with it
         /\ c17' = Set(c17, (FromWire(e.w).typ # "other" /\ e.str # LongPerm(FromWire(e.w))) \/ ~e.sizeok \/ ~e.nameok \/ ~e.ownerok,
                       "the long name of a listed entry disagrees with its structured attributes")
         /\ UNCHANGED bad
    [] e.ev \in {"Req", "Resp", "Setup", "ServeRet", "ConnClose", "PmFini", "Note"} -> UNCHANGED <<bad, c17>>
    [] OTHER -> bad' = "unknown event" /\ UNCHANGED c17
Next == l <= Len(Trace) /\ Step(Trace[l]) /\ l' = l + 1
Spec == Init /\ [][Next]_vars
Inv_WellFormed == bad = ""
Inv_C17 == c17 = ""
=============================================================================
