----------------------------- MODULE TraceDecode -----------------------------
(* Trace validation for C08: every decoding entry point of both codecs called on mutated inputs.
     Frame   a framing call (recvPacket with/without allocator, filexfer readPacket): input length, declared length
             (as two 16-bit halves: TLC integers are 32 bit), bytes consumed from the reader, outcome
     Dec     a body / attribute / name-list decoding call: input length, outcome class, bytes allocated *)
EXTENDS Wire, Json
Trace == ndJsonDeserialize("trace.ndjson")
VARIABLES l, bad, c08
vars == <<l, bad, c08>>
Init == l = 1 /\ bad = "" /\ c08 = ""
Set(v, cond, msg) == IF cond /\ v = "" THEN msg ELSE v

(* 256 KiB = 4 * 65536 *)
TooLong(hi, lo) == hi > 4 \/ (hi = 4 /\ lo > 0)
Zero(hi, lo) == hi = 0 /\ lo = 0
AllocBound(inlen) == 64 * inlen + 8192

Step(e) ==
  CASE e.ev = "Reset" -> c08' = "" /\ UNCHANGED bad
    [] e.ev = "Frame" ->
         LET have   == e.inlen >= 4
             minlen == IF e.entry \in {"fx.readPacket", "fx.readPacket+bigbuf"} THEN 5 ELSE 1      \* filexfer requires type byte + request id
             refuse == have /\ (TooLong(e.hi, e.lo) \/ (e.hi = 0 /\ e.lo < minlen))
             fits   == have /\ ~refuse /\ e.hi * 65536 + e.lo <= e.inlen - 4 IN
         /\ c08' = Set(c08, e.class = "panic"
                              \/ (refuse /\ (e.class # "error" \/ e.consumed # 4))
                              \/ (have /\ ~refuse /\ ~fits /\ e.class # "error")
                              \/ (~have /\ e.class # "error")
                              \/ (fits /\ (e.class # "ok" \/ e.outlen # e.hi * 65536 + e.lo \/ e.consumed # 4 + e.hi * 65536 + e.lo))
                              \/ e.alloc > (IF refuse \/ ~have THEN 8192 ELSE 2 * (e.hi * 65536 + e.lo) + 8192),
                       IF e.class = "panic" THEN "a framing call panicked"
                       ELSE IF refuse /\ e.class # "error" THEN "a zero-length or over-long frame was not refused"
                       ELSE IF refuse THEN "a frame was refused only after reading beyond its length field"
                       ELSE IF fits /\ e.class # "ok" THEN "a complete well-framed packet was rejected"
                       ELSE IF fits THEN "a frame was delivered with a length other than the declared one"
                       ELSE IF e.class = "ok" THEN "a frame whose declared length exceeds the bytes available was delivered short"
                       ELSE "framing allocated memory out of proportion to the frame")
         /\ UNCHANGED bad
    [] e.ev = "Dec" ->
         \* strict: one of the two complete request decoders on a mutated frame: if the reference decoder of Wire.tla finds a
         \* length or count that exceeds the bytes available, the Go decoder must report an error too
         /\ c08' = Set(c08, e.class = "panic" \/ e.alloc > AllocBound(e.inlen) \/ (e.strict /\ DecFrame(e.bytes).class = "short" /\ e.class = "ok"),
                       IF e.class = "panic" THEN "a decoder panicked: " \o e.entry
                       ELSE IF e.alloc > AllocBound(e.inlen) THEN "a decoder allocated memory out of proportion to its input: " \o e.entry
                       ELSE "a packet whose declared length exceeds the bytes available was decoded instead of refused: " \o e.entry)
         /\ UNCHANGED bad
    [] e.ev \in {"Note"} -> UNCHANGED <<bad, c08>>
    [] OTHER -> bad' = "unknown event" /\ UNCHANGED c08
Next == l <= Len(Trace) /\ Step(Trace[l]) /\ l' = l + 1
Spec == Init /\ [][Next]_vars
Inv_WellFormed == bad = ""
Inv_C08 == c08 = ""
=============================================================================
